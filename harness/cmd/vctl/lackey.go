package main

import (
	"bufio"
	"encoding/hex"
	"encoding/json"
	"fmt"
	"io"
	"os"
	"os/exec"
	"path/filepath"
	"sort"
	"strconv"
	"strings"
	"sync"
	"syscall"

	"verifharness/mon"
)

// ---- machine-level leakage tracer: valgrind lackey + symbol-table filter ----

type symbol struct {
	start, end uint64
	name       string
	keep       bool
	leaf       bool // runtime leaf helper: kept only when entered from kept code
}

type symtab struct {
	syms               []symbol
	markBegin, markEnd uint64
}

// keepSymbol: everything is kept except scheduler / GC / allocator code; the runtime leaf
// helpers that compiled code calls with data stay in.
func keepSymbol(name string) bool {
	leaf := []string{"runtime.memmove", "runtime.memequal", "memeqbody", "runtime.memclr", "runtime.duff", "runtime.cmpstring", "cmpbody", "runtime.panicIndex", "runtime.panicSlice", "runtime.goPanic", "runtime.panicdivide", "internal/bytealg."}
	for _, l := range leaf {
		if strings.HasPrefix(name, l) {
			return true
		}
	}
	drop := []string{"runtime.", "runtime/internal/", "internal/runtime/", "sync.", "sync/", "internal/abi.", "internal/cpu.", "gosave", "setg_gcc", "aeshashbody", "gogo", "callRet", "debugCall", "_rt0", "x_cgo", "_cgo", "indexbytebody", "vdso", "time."}
	for _, d := range drop {
		if strings.HasPrefix(name, d) {
			return false
		}
	}
	return true
}

func loadSymtab(bin string) (*symtab, error) {
	cmd := exec.Command("go", "tool", "nm", "-n", "-size", bin)
	cmd.Env = goEnv()
	out, err := cmd.Output()
	if err != nil {
		return nil, fmt.Errorf("go tool nm: %v", err)
	}
	st := &symtab{}
	for _, ln := range strings.Split(string(out), "\n") {
		f := strings.Fields(ln)
		if len(f) < 4 || (f[2] != "T" && f[2] != "t") {
			continue
		}
		a, err1 := strconv.ParseUint(f[0], 16, 64)
		sz, err2 := strconv.ParseUint(f[1], 10, 64)
		if err1 != nil || err2 != nil {
			continue
		}
		name := strings.Join(f[3:], " ")
		st.syms = append(st.syms, symbol{a, a + sz, name, keepSymbol(name), keepSymbol(name) && (strings.HasPrefix(name, "runtime.") || strings.HasPrefix(name, "internal/bytealg.") || name == "memeqbody" || name == "cmpbody")})
		switch name {
		case "main.markBegin":
			st.markBegin = a
		case "main.markEnd":
			st.markEnd = a
		}
	}
	sort.Slice(st.syms, func(i, j int) bool { return st.syms[i].start < st.syms[j].start })
	if st.markBegin == 0 || st.markEnd == 0 {
		return nil, fmt.Errorf("marker symbols not found in %s", bin)
	}
	return st, nil
}

func (st *symtab) find(a uint64) *symbol {
	i := sort.Search(len(st.syms), func(i int) bool { return st.syms[i].start > a }) - 1
	if i >= 0 && a < st.syms[i].end {
		return &st.syms[i]
	}
	return nil
}

const chunkRecords = 4096

// debugSave, when set (vctl lackey ... save), receives every kept record as text.
var debugSave io.Writer
var debugRegion = -1

type regionTrace struct {
	Head        []string // text of the first chunk (retained in wave runs for attribution without re-tracing)
	Retries     int      // prologue retries (morestack) removed
	HeapRecords int      // records whose address was a run-dependent heap slot (compared coarsely)
	Records     int
	Chunks      []uint64 // FNV hash of every chunkRecords kept records
}

type dumpReq struct {
	region, chunk int
}

// scanTrace consumes lackey's output. Records of the region between the n-th markBegin and
// the following markEnd are filtered by symbol, normalised and hashed in chunks; with dump
// set, the records of that (region, chunk) are returned as text with symbol names.
//
// Normalisation (both are artefacts of the Go runtime that vary from run to run of the SAME
// input, found by diffing repeated runs):
//   - the goroutine stack sits at a run-dependent address: stack accesses (a 48 KiB window
//     below the stack pointer at the marker call, which the CALL's own store reveals; the
//     subject pre-grows its stack to >= 256 KiB) are rewritten as exact offsets from that
//     anchor. Static data (precomputed tables, operand slots) is compared exactly.
//   - heap objects allocated inside a region (only MultiScalarMult's make calls) land in
//     run-dependent size-class slots because the runtime allocates small objects of its own
//     at scheduler-dependent times: for those addresses only kind, size and 8-byte alignment
//     are compared. Stated limit: a secret-dependent offset INTO such a heap object is not
//     visible at machine level (it is at source level, and the same selection code is
//     traced exactly where its table lives on the stack or in static data).
//   - a function prologue that ends in a call to runtime.morestack (stack growth or a
//     cooperative preemption request by sysmon) is removed together with its spill/reload
//     stub, up to the re-execution of the function entry.
func scanTrace(r io.Reader, st *symtab, dump *dumpReq) ([]regionTrace, []string, error) {
	var regions []regionTrace
	var dumped []string
	br := bufio.NewReaderSize(r, 1<<20)
	in := false
	keep := false
	var cur *regionTrace
	var h uint64
	var lastSym *symbol
	reset := func() { h = 14695981039346656037 }
	reset()
	type rec struct {
		kind  byte
		a, sz uint64
		sym   *symbol
	}
	const arena = 0xc000000000
	const stackWindow = 48 << 10
	var sp0, lastStore uint64
	var pending []rec // delayed so that a prologue retry can be retracted
	var skipUntil uint64
	commit := func(rc rec) {
		a := rc.a
		if rc.kind != 'I' && a >= arena {
			if sp0 != 0 && a+stackWindow >= sp0 && a < sp0+1024 {
				a = arena + (a + stackWindow - sp0) // exact offset from the anchor
			} else {
				a = 0xd000000000 + a&7 // heap object in a run-dependent slot
				cur.HeapRecords++
			}
		}
		if debugSave != nil && (debugRegion < 0 || debugRegion == len(regions)-1) {
			nm := "?"
			if rc.sym != nil {
				nm = rc.sym.name
			}
			fmt.Fprintf(debugSave, "%d %c %x,%d %s raw=%x sp0=%x\n", len(regions)-1, rc.kind, a, rc.sz, nm, rc.a, sp0)
		}
		if dump != nil && dump.region == -2 && cur.Records < chunkRecords {
			nm := "?"
			if rc.sym != nil {
				nm = rc.sym.name
			}
			cur.Head = append(cur.Head, fmt.Sprintf("%c %x,%d %s", rc.kind, a, rc.sz, nm))
		}
		if dump != nil && (len(regions)-1 == dump.region && cur.Records/chunkRecords == dump.chunk || dump.region == -1 && len(regions) == 1 && cur.Records < 600) {
			nm := "?"
			if rc.sym != nil {
				nm = rc.sym.name
			}
			dumped = append(dumped, fmt.Sprintf("%c %x,%d %s", rc.kind, a, rc.sz, nm))
		}
		for _, x := range [3]uint64{uint64(rc.kind), a, rc.sz} {
			h ^= x
			h *= 1099511628211
		}
		cur.Records++
		if cur.Records%chunkRecords == 0 {
			cur.Chunks = append(cur.Chunks, h)
			reset()
		}
	}
	const delay = 96
	push := func(rc rec) {
		pending = append(pending, rc)
		if len(pending) > 2*delay {
			for _, p := range pending[:delay] {
				commit(p)
			}
			pending = append(pending[:0], pending[delay:]...)
		}
	}
	flush := func() {
		for _, p := range pending {
			commit(p)
		}
		pending = pending[:0]
	}
	leafKeep := true
	var curSym, callerSym *symbol
	for i := range st.syms {
		if st.syms[i].name == "main.runTraced" {
			callerSym = &st.syms[i]
		}
	}
	var lastKept *symbol // symbol of the last kept instruction
	lastWasKept := false
	for {
		line, err := br.ReadSlice('\n')
		if len(line) > 4 && (line[0] == 'I' || line[0] == ' ') && (line[1] == ' ' || line[1] == 'L' || line[1] == 'S' || line[1] == 'M') {
			kind := line[0]
			if kind == ' ' {
				kind = line[1]
			}
			j := 3
			var a uint64
			for ; j < len(line) && line[j] != ','; j++ {
				c := line[j]
				switch {
				case c >= '0' && c <= '9':
					a = a<<4 | uint64(c-'0')
				case c >= 'a' && c <= 'f':
					a = a<<4 | uint64(c-'a'+10)
				case c >= 'A' && c <= 'F':
					a = a<<4 | uint64(c-'A'+10)
				}
			}
			var sz uint64
			for j++; j < len(line) && line[j] >= '0' && line[j] <= '9'; j++ {
				sz = sz*10 + uint64(line[j]-'0')
			}
			if kind == 'I' {
				if curSym == nil || a < curSym.start || a >= curSym.end {
					curSym = st.find(a)
				}
				if a == st.markBegin {
					in = true
					regions = append(regions, regionTrace{})
					cur = &regions[len(regions)-1]
					reset()
					keep = false
					sp0 = lastStore // the CALL markBegin pushed its return address there
					pending = pending[:0]
					skipUntil = 0
					lastWasKept = false
				} else if a == st.markEnd && in {
					flush()
					in = false
					if cur.Records%chunkRecords != 0 {
						cur.Chunks = append(cur.Chunks, h)
					}
					cur = nil
				} else if in {
					if lastSym == nil || a < lastSym.start || a >= lastSym.end {
						prev := lastSym
						lastSym = st.find(a)
						if lastSym != nil && lastSym.leaf && !(prev != nil && prev.leaf) {
							// a memclr/memmove/memequal called by the allocator or scheduler is
							// runtime business; one called by compiled library code is data flow
							leafKeep = lastWasKept
						}
					}
					keep = lastSym == nil || (lastSym.keep && lastSym.start != st.markBegin)
					if keep && lastSym != nil && lastSym.leaf && !leafKeep {
						keep = false
					}
					if lastSym != nil && strings.HasPrefix(lastSym.name, "runtime.morestack") && lastWasKept && lastKept != nil && skipUntil == 0 {
						// retract the prologue attempt and its stub: everything back to the
						// most recent execution of the function's entry instruction
						for k := len(pending) - 1; k >= 0; k-- {
							if pending[k].kind == 'I' && pending[k].a == lastKept.start {
								pending = pending[:k]
								skipUntil = lastKept.start
								cur.Retries++
								break
							}
						}
					}
					if keep {
						lastKept = lastSym
					}
					lastWasKept = keep
					if skipUntil != 0 && keep {
						if a == skipUntil {
							skipUntil = 0
						}
					}
				}
			}
			if kind == 'S' && callerSym != nil && curSym == callerSym {
				// stores made by the function that calls the markers: the last one before
				// markBegin is the CALL pushing its return address (other threads' stores,
				// e.g. sysmon's, can interleave in lackey's output and must not be taken)
				lastStore = a
			}
			if in && keep && cur != nil && skipUntil == 0 && !(kind == 'I' && a == st.markBegin) {
				push(rec{kind, a, sz, lastSym})
			}
		}
		if err != nil {
			if err == io.EOF {
				break
			}
			if err == bufio.ErrBufferFull {
				continue
			}
			return regions, dumped, err
		}
	}
	return regions, dumped, nil
}

var (
	ctworkMu   sync.Mutex
	ctworkBins = map[string]string{}
)

// buildCtwork builds the machine-level subject for a build configuration ("" or "purego").
func buildCtwork(tag string) (string, error) {
	ctworkMu.Lock()
	defer ctworkMu.Unlock()
	if p, ok := ctworkBins[tag]; ok {
		return p, nil
	}
	out := filepath.Join(scratch, "ctwork"+tag)
	tags := "verif"
	if tag != "" {
		tags += "," + tag
	}
	cmd := exec.Command("go", "build", "-tags", tags, "-o", out, "./cmd/ctwork")
	cmd.Dir = harnessDir
	cmd.Env = goEnv()
	if b, err := cmd.CombinedOutput(); err != nil {
		return "", fmt.Errorf("building ctwork: %v\n%s", err, b)
	}
	ctworkBins[tag] = out
	return out, nil
}

func runLackey(bin, assign string, st *symtab, dump *dumpReq) ([]regionTrace, []string, error) {
	img, err := os.ReadFile(assign)
	if err != nil {
		return nil, nil, err
	}
	pr, pw, err := os.Pipe()
	if err != nil {
		return nil, nil, err
	}
	cmd := exec.Command("valgrind", "--tool=lackey", "--trace-mem=yes", "--log-fd=3", bin, hex.EncodeToString(img))
	cmd.ExtraFiles = []*os.File{pw}
	cmd.Dir = "/"
	// a minimal, fixed environment: the initial stack layout must not depend on the caller's
	cmd.Env = []string{"PATH=/usr/bin:/bin", "HOME=/", "GOMAXPROCS=1", "GOGC=off", "GODEBUG=asyncpreemptoff=1"}
	if err := cmd.Start(); err != nil {
		pw.Close()
		pr.Close()
		return nil, nil, err
	}
	pw.Close()
	syscall.Syscall(syscall.SYS_FCNTL, pr.Fd(), 1031 /* F_SETPIPE_SZ */, 1<<20)
	regions, dumped, serr := scanTrace(pr, st, dump)
	pr.Close()
	werr := cmd.Wait()
	if serr != nil {
		return nil, nil, serr
	}
	if werr != nil {
		return regions, dumped, fmt.Errorf("valgrind: %v", werr)
	}
	return regions, dumped, nil
}

func addr2line(bin string, pcs []uint64) []string {
	cmd := exec.Command("go", "tool", "addr2line", bin)
	cmd.Env = goEnv()
	var sb strings.Builder
	for _, p := range pcs {
		fmt.Fprintf(&sb, "%x\n", p)
	}
	cmd.Stdin = strings.NewReader(sb.String())
	out, err := cmd.Output()
	if err != nil {
		return nil
	}
	lines := strings.Split(strings.TrimSpace(string(out)), "\n")
	var res []string
	for i := 0; i+1 < len(lines); i += 2 {
		res = append(res, lines[i]+" "+lines[i+1])
	}
	return res
}

// funcLineRange finds the source lines of a function in the working tree.
func funcLineRange(file, fn string) (int, int) {
	b, err := os.ReadFile(file)
	if err != nil {
		return 0, 0
	}
	lines := strings.Split(string(b), "\n")
	for i, ln := range lines {
		if strings.HasPrefix(ln, "func "+fn+"(") {
			for j := i; j < len(lines); j++ {
				if lines[j] == "}" {
					return i + 1, j + 1
				}
			}
		}
	}
	return 0, 0
}

// machineExempt: entry points not compared at machine level (none: the decoder validity
// decision of SetCanonicalBytes is handled by restricting its assignments, see mon/ctops.go).
var machineExempt = map[string]bool{}

// machineTrace is the machine-level stage of C03.
func machineTrace(rc *runCfg, m *merged) error {
	if _, err := exec.LookPath("valgrind"); err != nil {
		m.addInconclusive("valgrind not found: machine-level leakage tracer not run")
		return nil
	}
	// 1. assignments (generated by the worker, which links the library's generators)
	emit := stage{config: "default", mode: "emit-images"}
	outs, err := runStage(rc, emit)
	if err != nil {
		return err
	}
	m.absorb(rc, emit, outs)
	var names []string
	for k, v := range m.extra {
		if strings.HasSuffix(k, "/entry-points") {
			if l, ok := v.([]any); ok && names == nil {
				for _, x := range l {
					names = append(names, fmt.Sprint(x))
				}
			}
			delete(m.extra, k)
		}
	}
	dir := filepath.Join(scratch, "lackey")
	files, _ := filepath.Glob(filepath.Join(dir, "assign-*.bin"))
	if len(files) < 2 || len(names) == 0 {
		m.addInconclusive("no machine-level assignments were produced")
		return nil
	}
	if err := machineCompare(rc, m, dir, names, files, ""); err != nil {
		return err
	}
	if rc.tier == "thorough" {
		// the portable field code under the same tracer, on a subset of the assignments
		var sub []string
		for _, f := range files {
			b := filepath.Base(f)
			var k int
			if b == "assign-z1.bin" || b == "assign-z2.bin" || b == "assign-z3.bin" {
				sub = append(sub, f)
			} else if _, err := fmt.Sscanf(b, "assign-%d.bin", &k); err == nil && k < 24 {
				sub = append(sub, f)
			}
		}
		return machineCompare(rc, m, dir, names, sub, "purego")
	}
	return nil
}

// machineCompare traces the given assignments with the subject built for one configuration
// and compares them with the reference assignment.
func machineCompare(rc *runCfg, m *merged, dir string, names []string, files []string, tag string) error {
	label := "machine level"
	cfgName := "default"
	if tag != "" {
		label += " (" + tag + ")"
		cfgName = tag
	}
	bin, err := buildCtwork(tag)
	if err != nil {
		return err
	}
	st, err := loadSymtab(bin)
	if err != nil {
		m.addInconclusive("symbol table: " + err.Error())
		return nil
	}
	// 2. one lackey run per assignment, in parallel
	type res struct {
		name    string
		regions []regionTrace
		err     error
	}
	results := make([]res, len(files))
	var wg sync.WaitGroup
	// valgrind writes one record per write(2): beyond ~5 concurrent runs the kernel time
	// grows faster than the parallelism gained (measured: 4 runs 27 s, 10 runs 120 s)
	sem := make(chan struct{}, 5)
	for i, f := range files {
		wg.Add(1)
		go func(i int, f string) {
			defer wg.Done()
			sem <- struct{}{}
			defer func() { <-sem }()
			name := strings.TrimSuffix(strings.TrimPrefix(filepath.Base(f), "assign-"), ".bin")
			rg, _, err := runLackey(bin, f, st, &dumpReq{-2, 0})
			results[i] = res{name, rg, err}
		}(i, f)
	}
	wg.Wait()
	by := map[string][]regionTrace{}
	for _, r := range results {
		if r.err != nil || len(r.regions) != len(names) {
			m.addInconclusive(fmt.Sprintf("lackey run for assignment %s did not produce %d regions (%v)", r.name, len(names), r.err))
			continue
		}
		by[r.name] = r.regions
	}
	ref, ok := by["0"]
	if !ok {
		m.addInconclusive("reference assignment has no machine trace")
		return nil
	}
	perOp := map[string]string{}
	var totalRecords int64
	for i, n := range names {
		perOp[n] = fmt.Sprintf("%d records", ref[i].Records)
		if ref[i].Records == 0 {
			m.addInconclusive("machine trace of " + n + " is empty")
		}
	}
	same := func(a, b regionTrace) (bool, int) {
		n := len(a.Chunks)
		if len(b.Chunks) < n {
			n = len(b.Chunks)
		}
		for c := 0; c < n; c++ {
			if a.Chunks[c] != b.Chunks[c] {
				return false, c
			}
		}
		if a.Records != b.Records {
			return false, n - 1
		}
		return true, 0
	}
	ciLo, ciHi := funcLineRange(filepath.Join(repoDir, "edwards25519.go"), "checkInitialized")
	// investigate re-runs the two assignments dumping the differing chunk; returns nil if the
	// divergence does not reproduce.
	investigations := 0
	diffDumps := func(an, bn string, op, chunk int, da, db []string) map[string]any {
		j := 0
		for j < len(da) && j < len(db) && da[j] == db[j] {
			j++
		}
		if j == len(da) && j == len(db) {
			return nil
		}
		get := func(d []string, k int) string {
			if k >= 0 && k < len(d) {
				return d[k]
			}
			return "<end>"
		}
		// last instruction record at or before the divergence that is not in a runtime helper
		var pcs []uint64
		site := ""
		for k := j; k >= 0 && k > j-400; k-- {
			f := strings.Fields(get(da, k))
			if len(f) >= 3 && f[0] == "I" && !strings.HasPrefix(f[2], "runtime.") && f[2] != "memeqbody" {
				var pc uint64
				fmt.Sscanf(f[1], "%x", &pc)
				pcs = append(pcs, pc)
				site = f[2]
				break
			}
		}
		det := map[string]any{"entry-point": names[op], "assignments": an + " vs " + bn, "chunk": chunk, "record-in-chunk": j, "a": get(da, j), "b": get(db, j), "symbol": site}
		if al := addr2line(bin, pcs); len(al) > 0 {
			det["source"] = al[0]
			if i := strings.LastIndex(al[0], ":"); i >= 0 && ciLo > 0 {
				if ln, err := strconv.Atoi(strings.TrimSpace(al[0][i+1:])); err == nil && strings.Contains(al[0], "edwards25519.go") && ln >= ciLo && ln <= ciHi {
					det["in-checkInitialized"] = true
				}
			}
		}
		if strings.HasSuffix(site, ".checkInitialized") {
			det["in-checkInitialized"] = true
		}
		return det
	}
	// investigate re-traces the two assignments (in parallel) dumping the differing chunk;
	// it returns nil if the divergence does not reproduce.
	investigate := func(an, bn string, op, chunk int) map[string]any {
		investigations++
		if investigations > 6 {
			// enough witnesses were attributed in detail; further ones are reported without re-tracing
			return map[string]any{"entry-point": names[op], "assignments": an + " vs " + bn, "chunk": chunk, "symbol": "(not re-traced: more than 6 divergences in this run)"}
		}
		var da, db []string
		var e1, e2 error
		var wg2 sync.WaitGroup
		wg2.Add(2)
		go func() {
			defer wg2.Done()
			_, da, e1 = runLackey(bin, filepath.Join(dir, "assign-"+an+".bin"), st, &dumpReq{op, chunk})
		}()
		go func() {
			defer wg2.Done()
			_, db, e2 = runLackey(bin, filepath.Join(dir, "assign-"+bn+".bin"), st, &dumpReq{op, chunk})
		}()
		wg2.Wait()
		if e1 != nil || e2 != nil {
			return map[string]any{"error": fmt.Sprint(e1, e2)}
		}
		return diffDumps(an, bn, op, chunk, da, db)
	}
	nCompared := 0
	var assignNames []string
	for an := range by {
		assignNames = append(assignNames, an)
	}
	sort.Strings(assignNames)
	for _, an := range assignNames {
		if an == "0" || an == "z1" || an == "z2" || an == "z3" {
			continue
		}
		for op := range names {
			if machineExempt[names[op]] {
				continue
			}
			nCompared++
			m.evaluations++
			totalRecords += int64(by[an][op].Records)
			if ok, chunk := same(ref[op], by[an][op]); !ok {
				det := investigate("0", an, op, chunk)
				if det == nil {
					m.addInconclusive(fmt.Sprintf("machine-level divergence for %s (assignment %s) did not reproduce", names[op], an))
					continue
				}
				v := mon.Violation{Case: -1, Kind: "machine-level trace (instruction and memory addresses) depends on secret values",
					Site: fmt.Sprint(det["symbol"]), Detail: det}
				// second witness class of known finding K1: the divergence lies in checkInitialized
				// and this assignment has a point whose lowest X limb is zero
				if det["in-checkInitialized"] == true && strings.Contains(classOf(dir, an, op), "[point-input-with-zero-low-X-limb]") {
					v.Site, v.Class = "checkInitialized", "point-input-with-zero-low-X-limb"
				}
				m.violations = append(m.violations, taggedViolation{Violation: v, Config: cfgName, Mode: "machine-trace"})
			}
		}
	}
	// K1 witness class: two members must agree completely; against the reference the first
	// divergence must lie in checkInitialized.
	if z1, ok1 := by["z1"]; ok1 {
		if z2, ok2 := by["z2"]; ok2 {
			for op := range names {
				nCompared++
				m.evaluations++
				if ok, chunk := same(z1[op], z2[op]); !ok {
					det := investigate("z1", "z2", op, chunk)
					if det == nil {
						m.addInconclusive("machine-level divergence inside the zero-X class did not reproduce for " + names[op])
						continue
					}
					m.violations = append(m.violations, taggedViolation{Violation: mon.Violation{Case: -1, Kind: "machine-level trace differs between two points of the literal-zero-X class",
						Site: fmt.Sprint(det["symbol"]), Detail: det}, Config: cfgName, Mode: "machine-trace"})
				}
			}
		}
		k1seen, k1div := 0, 0
		for op := range names {
			if ok, chunk := same(ref[op], z1[op]); !ok {
				k1div++
				if k1seen >= 2 {
					continue // the same finding: already attributed on two entry points
				}
				var det map[string]any
				if chunk == 0 && len(ref[op].Head) > 0 && len(z1[op].Head) > 0 {
					det = diffDumps("0", "z1", op, 0, ref[op].Head, z1[op].Head) // retained first chunks, no re-trace
				} else {
					det = investigate("0", "z1", op, chunk)
				}
				if det == nil {
					continue
				}
				v := mon.Violation{Case: -1, Kind: "machine-level trace differs for a point with literal-zero X limbs", Detail: det, Site: fmt.Sprint(det["symbol"])}
				if det["in-checkInitialized"] == true {
					v.Site, v.Class = "checkInitialized", "point-input-with-all-zero-X-limbs"
					k1seen++
				}
				m.violations = append(m.violations, taggedViolation{Violation: v, Config: cfgName, Mode: "machine-trace"})
			}
		}
		m.extra[label+": entry points where the K1 witness (literal-zero X) diverges from the reference"] = k1div
		m.extra[label+": of those, re-traced and attributed to checkInitialized"] = k1seen
	}
	// second witness class of K1 (zero lowest X limb): against the reference, the first
	// divergence must lie in checkInitialized
	if z3, ok := by["z3"]; ok {
		seen, div := 0, 0
		for op := range names {
			nCompared++
			m.evaluations++
			if ok, chunk := same(ref[op], z3[op]); !ok {
				div++
				if seen >= 2 {
					continue // the same finding: already attributed on two entry points
				}
				var det map[string]any
				if chunk == 0 && len(ref[op].Head) > 0 && len(z3[op].Head) > 0 {
					det = diffDumps("0", "z3", op, 0, ref[op].Head, z3[op].Head)
				} else {
					det = investigate("0", "z3", op, chunk)
				}
				if det == nil {
					continue
				}
				v := mon.Violation{Case: -1, Kind: "machine-level trace differs for a point whose X has a zero lowest limb", Detail: det, Site: fmt.Sprint(det["symbol"])}
				if det["in-checkInitialized"] == true {
					v.Site, v.Class = "checkInitialized", "point-input-with-zero-low-X-limb"
					seen++
				}
				m.violations = append(m.violations, taggedViolation{Violation: v, Config: cfgName, Mode: "machine-trace"})
			}
		}
		m.extra[label+": entry points where the zero-low-X-limb witness diverges from the reference"] = div
		m.extra[label+": of those, attributed to checkInitialized"] = seen
	}
	m.extra[label+": (assignment, entry point) trace comparisons"] = nCompared
	m.extra[label+": assignments traced"] = len(by)
	m.extra[label+": records in the reference trace per entry point"] = perOp
	m.extra[label+": records compared"] = totalRecords
	b, _ := json.Marshal(perOp)
	_ = b
	return nil
}

// classOf returns the input class the emitter recorded for (assignment, entry point), or "".
func classOf(dir, assignment string, op int) string {
	files, _ := filepath.Glob(filepath.Join(dir, "meta-*.json"))
	for _, f := range files {
		b, err := os.ReadFile(f)
		if err != nil {
			continue
		}
		var meta map[string][]string
		if json.Unmarshal(b, &meta) != nil {
			continue
		}
		if cl, ok := meta[assignment]; ok && op < len(cl) {
			return cl[op]
		}
	}
	return ""
}

func runC03(rc *runCfg, pl *plan, m *merged) error {
	// source level in both configurations the library has on this machine (the portable field
	// code is different source); the machine level covers purego in the thorough tier only
	stages := []stage{{config: "instr", mode: "source-trace"}, {config: "instr-purego", mode: "source-trace"}}
	if rc.replayMode != "machine-trace" {
		for _, st := range stages {
			if rc.only >= 0 && rc.replayConfig != "" && rc.replayConfig != st.config {
				continue
			}
			outs, err := runStage(rc, st)
			if err != nil {
				return err
			}
			m.absorb(rc, st, outs)
		}
	}
	if os.Getenv("VERIF_C03_SOURCE_ONLY") != "" && rc.replayMode != "machine-trace" {
		// development aid for mutation sweeps; the registered commands never set it
		m.addInconclusive("machine-level stage skipped on request (VERIF_C03_SOURCE_ONLY)")
		return nil
	}
	if rc.only < 0 || rc.replayMode == "machine-trace" {
		save := rc.only
		rc.only = -1
		err := machineTrace(rc, m)
		rc.only = save
		return err
	}
	return nil
}
