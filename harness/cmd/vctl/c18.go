package main

import (
	"fmt"
	"os"
	"path/filepath"
	"regexp"
	"sort"
	"strings"

	"verifharness/mon"
)

var frameRe = regexp.MustCompile(`^  ([^\s(]+)\(`)

// parseRaceLogs reads the race detector's log files and returns de-duplicated reports.
type raceReport struct {
	key     string
	inLib   bool
	text    string
	count   int
	logFile string
}

func parseRaceLogs(glob string) (reports map[string]*raceReport, total int) {
	reports = map[string]*raceReport{}
	files, _ := filepath.Glob(glob)
	for _, f := range files {
		b, err := os.ReadFile(f)
		if err != nil {
			continue
		}
		blocks := strings.Split(string(b), "WARNING: DATA RACE")
		for _, blk := range blocks[1:] {
			total++
			if i := strings.Index(blk, "=================="); i >= 0 {
				blk = blk[:i]
			}
			// the first function of each access stack identifies the racing pair
			var firsts []string
			inLib := false
			sections := strings.Split(blk, "\n\n")
			for _, sec := range sections {
				lines := strings.Split(sec, "\n")
				head := ""
				for _, ln := range lines {
					if strings.HasPrefix(ln, "Read at") || strings.HasPrefix(ln, "Write at") || strings.HasPrefix(ln, "Previous read") || strings.HasPrefix(ln, "Previous write") || strings.HasPrefix(ln, "Atomic") || strings.HasPrefix(ln, "Previous atomic") {
						head = ln
					}
					if m := frameRe.FindStringSubmatch(ln); m != nil && head != "" {
						if strings.Contains(m[1], "filippo.io/edwards25519") && !strings.Contains(m[1], "/verifct") {
							inLib = true
							firsts = append(firsts, m[1])
							head = ""
						}
					}
				}
			}
			sort.Strings(firsts)
			key := strings.Join(firsts, " <-> ")
			if key == "" {
				key = "harness-only"
			}
			if r, ok := reports[key]; ok {
				r.count++
			} else {
				t := blk
				if len(t) > 2500 {
					t = t[:2500]
				}
				reports[key] = &raceReport{key: key, inLib: inLib, text: t, count: 1, logFile: f}
			}
		}
	}
	return
}

// bulkThreshold: a function entered at least this many times during the first-use construction
// of a sequential cold process is part of the construction's bulk arithmetic.
const bulkThreshold = 16

// constructionDiffers compares the construction-only entry counts of a concurrent process (b)
// with those of the sequential cold process (a). It decides on the bulk sites only: repeating
// (or cutting short) a table construction multiplies (or removes) thousands of field
// operations, whereas what may legitimately vary with the schedule in correct code - a
// sync.Pool's New function, a retry of a compare-and-swap helper - are a few entries of
// functions that do no bulk work. Differences at non-bulk sites are returned as a note.
func constructionDiffers(a, b map[string]any) (bulk string, minor string) {
	num := func(v any) float64 {
		var f float64
		fmt.Sscan(fmt.Sprint(v), &f)
		return f
	}
	keys := map[string]bool{}
	for k := range a {
		keys[k] = true
	}
	for k := range b {
		keys[k] = true
	}
	names := make([]string, 0, len(keys))
	for k := range keys {
		names = append(names, k)
	}
	sort.Strings(names)
	for _, k := range names {
		va, vb := num(a[k]), num(b[k])
		if va == vb {
			continue
		}
		if va >= bulkThreshold || vb >= bulkThreshold {
			if bulk == "" {
				bulk = fmt.Sprintf("%s: %v in the sequential cold process vs %v", k, va, vb)
			}
		} else if minor == "" {
			minor = fmt.Sprintf("%s: %v vs %v", k, va, vb)
		}
	}
	return
}

// runC18: sequential cold reference process, then N concurrent cold processes under -race.
func runC18(rc *runCfg, pl *plan, m *merged) error {
	cfg := "instr-race"
	// 1. sequential reference (same build, G=1): construction-only counts and delay sites
	seqOuts, err := runStage(&runCfg{prop: rc.prop, tier: rc.tier, seed: rc.seed, workers: 1, only: -1}, stage{config: cfg, mode: "sequential-reference", workers: 1,
		env: []string{"GORACE=halt_on_error=0 log_path=" + filepath.Join(scratch, "race-seq")}})
	if err != nil {
		return err
	}
	var vseq map[string]any
	if len(seqOuts) == 1 && seqOuts[0].res != nil {
		vseq, _ = seqOuts[0].res.Extra["construction-only-counts"].(map[string]any)
		for _, s := range seqOuts[0].res.Inconclusive {
			m.addInconclusive(s)
		}
		for _, v := range seqOuts[0].res.Violations {
			m.violations = append(m.violations, taggedViolation{Violation: v, Config: cfg, Mode: "sequential-reference"})
		}
	} else {
		m.addInconclusive("the sequential reference process did not finish")
	}
	var delaySites []string
	for k, v := range vseq {
		var id int
		var name string
		fmt.Sscanf(k, "%d %s", &id, &name)
		var n float64
		fmt.Sscan(fmt.Sprint(v), &n)
		if strings.HasSuffix(name, ":entry#1") && n >= 1 && n <= 64 {
			delaySites = append(delaySites, fmt.Sprint(id))
		}
	}
	sort.Strings(delaySites)
	m.extra["sequential cold process: construction-only entry counts (function entries)"] = func() map[string]any {
		o := map[string]any{}
		for k, v := range vseq {
			if strings.HasSuffix(k, ":entry#1") {
				o[k] = v
			}
		}
		return o
	}()
	m.extra["delay sites derived from the sequential process"] = len(delaySites)

	// 2. concurrent cold processes
	n := 40
	if rc.tier == "thorough" {
		n = 600
	}
	st := stage{config: cfg, mode: "concurrent", workers: n, env: []string{
		"GORACE=halt_on_error=0 log_path=" + filepath.Join(scratch, "race-conc-%w"),
		"VERIF_DELAY_SITES=" + strings.Join(delaySites, ","),
	}}
	outs, err := runStage(rc, st)
	if err != nil {
		return err
	}
	m.absorb(rc, st, outs)
	// 3. construction-only counts of every concurrent process must equal the sequential ones
	contended, compared := 0, 0
	minorNotes := map[string]int{}
	for w, o := range outs {
		if o.res == nil {
			continue
		}
		if o.res.Tallies["processes with a contended first use (>=2 goroutines inside the once host at a time)"] > 0 {
			contended++
		}
		v, _ := o.res.Extra["construction-only-counts"].(map[string]any)
		if v == nil || vseq == nil {
			continue
		}
		compared++
		bulk, minor := constructionDiffers(vseq, v)
		if bulk != "" {
			cs := int64(w)
			if rc.only >= 0 {
				cs = rc.only
			}
			m.violations = append(m.violations, taggedViolation{Violation: mon.Violation{Case: cs, Kind: "first-use construction ran a different number of times than in a sequential cold process",
				Detail: map[string]any{"process": w, "difference": bulk}}, Config: cfg, Mode: "concurrent"})
		}
		if minor != "" {
			minorNotes[minor]++
		}
	}
	orders := map[string]bool{}
	for k, v := range m.extra {
		if strings.HasSuffix(k, "/construction-only-counts") {
			delete(m.extra, k)
		}
		if strings.HasSuffix(k, "/first-use completion order") {
			orders[fmt.Sprint(v)] = true
			delete(m.extra, k)
		}
	}
	m.extra["distinct first-use completion orders observed (an observable of the schedule)"] = len(orders)
	m.extra["concurrent cold processes"] = len(outs)
	m.extra["processes whose construction counts were compared with the sequential process"] = compared
	if len(minorNotes) > 0 {
		m.extra["first-use entry counts that differed at non-bulk sites (recorded, not a verdict: pool constructors and retries may vary with the schedule)"] = minorNotes
	}
	m.extra["processes with a contended first use"] = contended
	if contended == 0 && rc.only < 0 {
		m.addInconclusive("no process had a contended first use (>=2 goroutines inside the once host at once): simultaneous first use was not observed")
	}
	// 4. race detector reports
	reports, total := parseRaceLogs(filepath.Join(scratch, "race-*"))
	m.extra["race detector reports (raw count)"] = total
	m.extra["race detector reports (distinct by racing library function pair)"] = len(reports)
	for _, r := range reports {
		if r.inLib {
			var w int64
			fmt.Sscanf(filepath.Base(r.logFile), "race-conc-%d.", &w)
			if rc.only >= 0 {
				w = rc.only
			}
			m.violations = append(m.violations, taggedViolation{Violation: mon.Violation{Case: w, Kind: "data race reported by the Go race detector with library frames",
				Detail: map[string]any{"racing-functions": r.key, "times-reported": r.count, "report": r.text}}, Config: cfg, Mode: "concurrent"})
		} else {
			m.addInconclusive("race report without library frames (harness problem?): " + strings.ReplaceAll(r.text[:min(len(r.text), 300)], "\n", " | "))
		}
	}
	return digestsAgree(rc, pl, m)
}

func min(a, b int) int {
	if a < b {
		return a
	}
	return b
}

func init() {
	plans["C18"] = &plan{
		runner:      runC18,
		rule:        "every execution is a cold child process built with -race from the source-instrumented overlay (count mode: atomic per-site entry counters). A sequential cold process of the same build yields the construction-only entry counts (entries during first use minus the warm per-call cost) and, from them, the function entries where delays are injected (never from names). Each concurrent process releases G in {2,4,16,64} goroutines from one barrier into their first ScalarBaseMult / VarTimeDoubleScalarBaseMult (both lazily built tables), half of the processes with 0.2-2 ms sleeps at the construction function entries; results are compared with model values computed beforehand; every sync.Once body must be entered at most once; the construction-only counts must equal the sequential process's; the number of goroutines simultaneously inside the function containing Once.Do measures contention. Then all goroutines run ~40 operations of Point, Scalar and Element on the same shared read-only operands (incl. shared scalar/point slices and byte slices) with private receivers, mutate their own constructor-returned copies, and must reproduce the sequential transcript. Race detector logs are parsed, de-duplicated by racing library function pair, and any report with library frames is a violation. Final package-state digests of all processes must agree. one evaluation = one goroutine's phase result; distinct by (phase, goroutine, G, expected bytes).",
		assumptions: append([]string{"explores the schedules the Go scheduler plus injected delays produce, not all interleavings", "the race detector only reports races that occur in the executions run"}, commonAssumptions...),
		minEvals:    40,
	}
}
