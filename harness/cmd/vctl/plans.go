package main

import (
	"fmt"
	"strings"

	"verifharness/mon"
)

// plans maps each property to the stages (build configuration x monitor mode) that decide
// it, the case-generation rule reported in the evidence, and the assumptions.
var commonAssumptions = []string{
	"the math/big reference model (self-tested at every worker start against RFC 8032/7748 vectors, crypto/ecdh, [l]B=O, torsion orders) is correct",
	"the Go toolchain, runtime and math/big of this image are correct",
	"held on the executions described under coverage only; nothing is proved",
}

var plans = map[string]*plan{
	"C01": {
		stages:      []stage{{config: "shim"}},
		rule:        "case i (seeded by (VERIF_SEED, property, i)) picks one of the 5 scalar-multiplication entry points (round robin), scalars from a mixture of structured classes (boundary values, 2^i(+-1), radix-16 digit extremes, NAF window-boundary runs, sparse, nibble extremes) and uniform, points from the whole group of order 8l ([k]B+T_j, small-order points, uniform decoded points) each built through a random public-API route (canonical/non-canonical decoding, SetExtendedCoordinates with a projective scale and per-coordinate limb recipes, via addition, via negation), term counts {0,1,2,3,4,8,17}; each case is executed under >=3 receiver states (zero value, identity, arbitrary point, previous result, aliased to an input) and every execution is one evaluation: returned pointer, coordinates (Z!=0, curve, XY=ZT), affine point and Bytes are compared with the reference sum, and results are compared across receiver states. In addition (optional in-package shim injected with -overlay, generated only if the identifiers it needs exist): for every case's first scalar the signed radix-16 and NAF-5/NAF-8 recodings must reconstruct the scalar with digits in range (odd and non-adjacent for NAF); for a quarter of the cases all 17 selections of a dynamic table built from the case's point and all 8 NAF-5 entries must be [x]Q; the run walks all (table index, digit) pairs of the 32 precomputed basepoint tables and all 64 odd digits of the NAF-8 table against [x*256^i]B. non-trivial = some scalar > 1 and some point != identity; distinct = by hash of (entry, scalars, point encodings, construction route, receiver state).",
		assumptions: commonAssumptions,
		minEvals:    1000,
	},
}

// alsoIn adds further build configurations of the same tree in which the same monitor runs;
// every build is compared with the model on its own (no cross-build comparison is needed), so
// this is extra reach for defects that need a configuration AND an input class at once.
func alsoIn(p *plan, cfgs ...string) {
	for _, c := range cfgs {
		p.stages = append(p.stages, stage{config: c, optional: true, env: []string{"VERIF_EXTRA_CONFIG=1"}})
	}
	p.rule += " The same monitor also runs in the " + strings.Join(cfgs, " and ") + " build(s) of the same working tree, each compared with the model on its own (in the thorough tier with 8 times the quick case count)."
}

func simple(rule string, min int64) *plan {
	return &plan{stages: []stage{{config: "default"}}, rule: rule, assumptions: commonAssumptions, minEvals: min}
}

func init() {
	plans["C02"] = simple("two thirds of the cases walk the 384 structured operand combinations (8x8 torsion pairs x prime-order parts {(0,0),(r,0),(0,r),(r,r),(r,-r),(r,r')}, so P=Q, Q=-P, P+Q of small order and the identity on either side all occur), one third are independent points of the whole group; every operand is built through a random public-API route (decoding, non-canonical decoding, SetExtendedCoordinates with projective scale and per-coordinate limb recipes, via addition, via negation); Add, Subtract, Negate and MultByCofactor are each evaluated once per case with a receiver that is the zero value, aliased to P, aliased to Q or another point; a second round then applies a random one of the four methods to the OBJECTS the first round produced (not copies; receivers are the zero value, a constructor result or a decoded point), so that whatever per-object state an operation leaves behind is what the next one reads; coordinates, affine point and Bytes are compared with the affine addition law in big integers. non-trivial = not both operands the identity; distinct by (op, receiver state, encodings, construction routes).", 1000)
	plans["C04"] = simple("32-byte candidates from 12 classes (uniform; valid encodings with the sign flipped, single bit flips, +-1/+-2 neighbours of valid y; all 2x19 non-canonical y; special y (0,+-1,p,p+-1,2^255-1,+-i,18,19) x sign; x=0 with sign bit; patterned/low-weight; curve-constant related y) and every wrong length 0..100,128,255,1024 (with valid encodings embedded as prefix/suffix); accept/reject is compared with an Euler-criterion oracle and the decoded point (coordinates, affine x/y, re-encoding) with ModSqrt. every case is non-trivial; distinct by input bytes.", 10000)
	plans["C05"] = simple("for each model point (whole group, plus points with y within 40 of 0 or p) all 6 construction routes plus 4 more random rescalings are encoded and compared with the RFC 8032 reference encoding and round-tripped through SetBytes; every second case also compares P+Q vs Q+P, [a]Q+[b]Q, [a+b]Q, three doublings vs MultByCofactor with the model; accepted non-canonical encodings (y+p, sign bit on x=0) must re-encode canonically. non-trivial = point != identity; distinct by (encoding, construction route).", 5000)
	plans["C06"] = simple("operand pairs by relation: same point in two representations/histories (also the same pointer), P vs P+T_j for the 7 non-trivial torsion translations, P vs -P, (x,y) vs (x,-y), the 8x8 small-order pairs exhaustively, P+T_a vs P+T_b, independent points; both argument orders; every operand built through a random public-API route; Equal must be exactly 1 or 0 as the model says. non-trivial = not both identity; distinct by (order, encodings, routes).", 10000)
	plans["C07"] = simple("each case draws (x,y,z): a quarter walk class x class pairs of the structured scalar list (boundaries, 2^i(+-1), digit extremes, patterns), the rest mix structured and uniform; operands are built through different public routes (canonical, wide reduction of k+j*l, a+b, a*b); Add, Subtract, Negate, Multiply, MultiplyAdd, Invert (with the independent check x*Invert(x)=1), Equal (also between two routes of the same value) are compared with math/big mod l, raw Montgomery limbs are asserted < l, and Equal is evaluated on pairs whose Montgomery-domain difference is exactly 2^b for every b in 0..252. non-trivial = x,y > 1; distinct by (op, x, y, z).", 50000)
	plans["C08"] = simple("SetCanonicalBytes over boundary values (l-1, l, l+1, 2^252, 2^253-1, 2^255.., 2^256-1), strings equal to l-1 above byte i and +-1 at byte i with random low part (all 32 positions), l-1 with random low parts, k*l+-small, single bits, top-byte sweep, structured and uniform values; SetUniformBytes over all-ones minus each bit, each single bit of 512, 21/42-byte split boundaries, k*l near 2^512, one-third-only, small k*l, uniform; SetBytesWithClamping over the same 32-byte classes; every wrong length 0..100,128,255,1024 for all three setters; accept sets, round trips and values are compared with integer comparison / big.Int mod l / RFC 8032 clamping. distinct by (setter, input).", 50000)
	plans["C09"] = simple("(i) one-step: every field operation on operand pairs drawn from (value class x reachable representation recipe R0-R3), a quarter of them from the limb-maximising recipes including constructed operands whose limbs sit at the top of what Mult32 can produce (2^51+2^32, limb0 2^51+19*2^32); (ii) histories of 30-120 steps where outputs feed inputs, each step the best of 3 candidates by largest output limb, finished with Invert/Pow22523 on the pool; (iii) values p-20..p+1, 0, 18..20 in every recipe. Results are compared with math/big through Bytes and independently through the raw limbs, every output limb is asserted < 2^52, and operands are snapshotted bit for bit. Only representations reachable through the public API are used. non-trivial = an operand > 1; distinct by (op, operand values, operand raw limbs).", 50000)
	plans["C10"] = simple("SetBytes over all 19 non-canonical encodings x bit 255, p-k neighbours, class values with bit 255, uniform; SetWideBytes over all-ones minus each bit, each single bit, k*p+-1, MSB patterns of both halves, half-only, uniform; Bytes/IsNegative/Equal over 4 representations (cycling through all 12 recipes) of the same value and of a different value; Select/Swap for cond 0 and 1, fresh and aliased receivers, compared on raw limbs. distinct by (operation, input bytes / value and recipe).", 50000)
	plans["C13"] = simple("per case a model point in a random projective scale gives a valid quadruple, which is used as is (4/16 + all-negated) or made invalid in exactly one way: T perturbed, T negated, X or Y perturbed with T recomputed, Z=0 with valid X,Y,T, all-zero in every representation of zero (literal, p limbs, 2p after carry, x-x, neg(0), recipes), Z=T=0 with X or Y zero, Z doubled alone, X/Y swapped, X negated alone, uniform quadruple; every coordinate gets a random limb recipe and equal-valued arguments are aliased at random; accept/reject is compared with the three conditions in big integers, accepted points with (X/Z, Y/Z), and the export is re-imported. distinct by (values, recipes). A quarter of the accepted cases then reuse the source object as a receiver (Add, MultByCofactor+Add, Set) and feed the EARLIER export back: it must still describe the exported point.", 10000)
	plans["C14"] = simple("the seven fallible setters x {wrong length (all of 0..100,128,255,1024), off-curve encoding, scalar >= l, invalid coordinate quadruples (T or X perturbed, Z=0, all-zero), valid input} x receiver state {zero value, typical, non-canonical representation, target of previously failed calls}; raw 160/32/40-byte snapshots of the receiver, copies of the input slice and raw snapshots of coordinate arguments are compared before/after; (nil,error) on failure and (receiver,nil) on success. distinct by (setter, input, receiver snapshot).", 10000)
	plans["C15"] = simple("enumerated: every exported Point operation x every non-empty subset of its Point-typed input positions set to a zero-value Point (other inputs from the generators, receiver zero/identity/generator) must panic; multi-scalar routines with a zero-value element at each index for n=1..5 (also when its scalar is 0) and all length pairs (n,m), n!=m<=4 incl. nil vs empty must panic; every operation with a zero-value Point as pure receiver must succeed and match the model; Set is exempt. distinct by (operation, positions, other inputs).", 5000)
	plans["C16"] = simple("(u,v) classes: (0,0), (0,v), (u,0), u/v square, non-square, u=+-v, u=+-i*v, v=1, small values, the (u,v) point decoding produces, class values, uniform; each operand in a random reachable limb recipe; receiver fresh, aliased to u, aliased to v; (value of r, wasSquare) compared with an Euler-criterion + ModSqrt oracle written from the specification text, r must be even, returned pointer must be the receiver. non-trivial = (u,v) != (0,0); distinct by (alias, u, v, recipes).", 10000)
	plans["C17"] = simple("four fifths: whole-group points (identity in all forms, order-2/order-4 points, [k]B+T_j, uniform decoded) built through a random public-API route; output compared with LE((1+y)/(1-y)) computed in big integers, and with the output for -P; one fifth: random and patterned 32-byte k through SetBytesWithClamping+ScalarBaseMult compared with the crypto/ecdh X25519 public key. non-trivial = not the identity; distinct by (encoding, route) / k.", 5000)
}

// digestsAgree: every worker process reports the digest of all package-level state at its
// end (tables built); differences between processes with different histories are recorded in
// the evidence (they are legitimate for lazily built or pooled state, so they decide nothing).
func digestsAgree(rc *runCfg, pl *plan, m *merged) error {
	ref := map[string]string{}
	refWho := ""
	n := 0
	differing := map[string]int{}
	for k, v := range m.extra {
		if !strings.HasSuffix(k, "/final-globals-digest") {
			continue
		}
		dm, ok := v.(map[string]any)
		if !ok {
			continue
		}
		n++
		if refWho == "" {
			refWho = k
			for name, d := range dm {
				ref[name] = fmt.Sprint(d)
			}
			continue
		}
		for name, d := range dm {
			if ref[name] != fmt.Sprint(d) {
				differing[name]++
			}
		}
		delete(m.extra, k)
	}
	if refWho != "" {
		delete(m.extra, refWho)
		m.extra["package-state digest per variable at the end of the first process (first 8 bytes)"] = ref
		if len(differing) > 0 {
			// recorded, not a verdict: lazily built or pooled state may legitimately differ between
			// processes that ran different histories; outputs are what the properties constrain
			m.extra["package-level variables whose final digest differed between processes (recorded, not a violation by itself)"] = differing
		} else {
			m.extra["package-level variables whose final digest differed between processes"] = "none"
		}
	}
	if n >= 2 {
		m.extra["processes whose final package-state digests were compared"] = n
		m.extra["variables in the digest"] = len(ref)
	} else if n == 0 {
		m.addInconclusive("globals digest hook not available: cross-process package-state comparison not done")
	}
	return nil
}

func init() {
	plans["C11"] = simple("half of the cases walk the table of every exported method of Element (16), Scalar (9) and Point (10) crossed with ALL set partitions of {receiver, same-typed pointer arguments} (108 combinations): each block of the partition gets one generated value; the call is run once with one object per block (aliased) and once with one object per position (distinct storage) and results/outputs must agree, returned pointer must be the receiver, and every object not written by contract is compared bit for bit before/after; a quarter drive MultiScalarMult/VarTimeMultiScalarMult with the receiver among the points, repeated points and repeated scalars (result vs model, slice elements and pointees unchanged); a quarter call the six byte-slice setters on a slice embedded in a larger buffer and compare the whole buffer. distinct by (method, partition, values).", 10000)
	// thorough: the same workload once more under the race detector, which also enables
	// checkptr (pointer-arithmetic and conversion checks on the library and on the harness)
	// (with 8 times the quick case count: the race build is about ten times slower)
	plans["C11"].stages = append(plans["C11"].stages, stage{config: "race", thoroughOnly: true, env: []string{"VERIF_EXTRA_CONFIG=1"}})
	plans["C12"] = simple("programs of 30-200 steps over a pool of 6 Points and 4 Scalars; each step is a random exported operation (all arithmetic, all five multiplications incl. multi-scalar with 0-3 terms, Set, both decoders with valid/non-canonical/invalid input, constructors, readers, scalar arithmetic) whose receiver is an existing slot (possibly one of its arguments) or a fresh zero value; after every step: returned pointer, exported coordinates (Z!=0, curve equation, XY=ZT in big integers), affine point and Bytes against the shadow model, limb bound, every other slot bit-for-bit unchanged; every 16 steps all ordered pairs of the pool are compared with Equal against the model; the package-globals digest is compared with the post-warm-up snapshot and drift is recorded (not a verdict: lazily built and pooled state may change legitimately). every step is one evaluation; distinct by (step, raw argument snapshots).", 20000)
	plans["C12"].custom = digestsAgree
	plans["C19"] = simple("programs of 20-120 steps of the history engine with mutation steps interleaved (1 in 4): overwriting previously returned Bytes/BytesMontgomery/Scalar.Bytes slices, ExtendedCoordinates elements (via Set and raw), Points returned by NewIdentityPoint/NewGeneratorPoint (Set, Add, raw limbs), NewScalar results, One()/Zero() receivers; each mutation is followed by a probe round with model-known answers ([k]B through ScalarBaseMult, VarTimeDoubleScalarBaseMult and ScalarMult on a fresh generator, constructors, a decode, SqrtRatio(2,1), Bytes of all pool members); every raw write of the harness into a returned value is bracketed by two package-globals digests, which must be identical (exact: nothing but the harness's own stores happens in between), while digest drift across library calls is only recorded; returned slices/elements are checked not to share memory with each other or with the Point; repeated (operation, argument values) observations must give identical bytes; in every second worker process the first use of the precomputed tables happens after mutations. distinct by (step or probe, values).", 10000)
	plans["C19"].custom = digestsAgree
}

func init() {
	plans["C03"] = &plan{
		runner:      runC03,
		rule:        "(a) source level: two-run trace equality. For each of the constant-time entry points (ScalarMult, ScalarBaseMult, MultiScalarMult with n=0..3, all Point arithmetic/comparison/encoding/export, valid-input decoders, all Scalar and field.Element operations incl. Select/Swap with both cond values) assignment 0 is the reference; assignments 1..N walk adversarial secret classes (scalar 0/1/l-1/digit extremes, identity, identity and order-2 point with literal-zero X limbs, all 8 small-order points, generator, rescaled/non-canonical-limb points, equal operands, field 0/+-1/i/p-19/18/d in every recipe, limb-maximal elements, cond 0/1) and then uniform values; the leakage trace (function entries, every branch/loop/short-circuit/composite-comparison outcome, case and range entries, every non-constant index/slice bound/make length, every non-constant shift count and divisor, arguments of calls to packages not on the constant-time allow-list) recorded by a source-instrumented build generated from the working tree (default and -tags purego, both in every tier) must be identical to the reference; a difference is re-examined with four fresh runs interleaved reference/this/reference/this and counts only if both pairs are reproducible and differ (events of functions whose trace varies for a FIXED input - pooled or lazily built state - are excluded and named in a note); the function of the deciding event is reported, its events are removed from both traces and the comparison repeated. No code is exempt by name: decoder entry points are compared within one accept class, and SetCanonicalBytes within the inputs on which the comparison with l decides at its first step (top byte < 0x10); VarTime entry points are not driven. (b) machine level: the uninstrumented library is linked into a small binary that reads one secret assignment as fixed-size raw operand images, places operands and receivers in package-level slots and runs every entry point between marker calls under valgrind --tool=lackey --trace-mem=yes (GOMAXPROCS=1, GOGC=off, asyncpreemptoff); the complete instruction-address and load/store-address trace of each region, minus scheduler/GC/allocator code classified by the binary's symbol table (runtime leaf helpers such as memequal/memmove stay in), is hashed in chunks of 4096 records and must be identical to the reference assignment's; a differing chunk is re-traced in both runs, must reproduce, and is attributed with the symbol table and go tool addr2line. In the thorough tier the subject is also built with -tags purego and 26 of the assignments are traced again. The K1 witness class is handled at machine level by comparing two members of the class with each other (must be identical) and with the reference (first divergence must lie in checkInitialized). distinct by (entry point, assignment, class, input bytes).",
		assumptions: append([]string{"leakage model: program counter, memory addresses and the listed operand values; micro-architectural effects (e.g. data-dependent multiplier latency) are out of reach of this monitor"}, commonAssumptions...),
		minEvals:    1000,
	}
}

// compareBuilds: per-chunk transcripts of the same deterministic program under the default
// and the purego build must be identical (value level decides; limb level is recorded).
func compareBuilds(rc *runCfg, pl *plan, m *merged) error {
	byCfg := map[string]map[string][2]string{}
	for k, v := range m.extra {
		if !strings.HasSuffix(k, "/chunks") {
			continue
		}
		cfg := strings.SplitN(k, "/", 2)[0]
		if byCfg[cfg] == nil {
			byCfg[cfg] = map[string][2]string{}
		}
		if cm, ok := v.(map[string]any); ok {
			for id, pair := range cm {
				if pa, ok := pair.([]any); ok && len(pa) == 2 {
					byCfg[cfg][id] = [2]string{fmt.Sprint(pa[0]), fmt.Sprint(pa[1])}
				}
			}
		}
		delete(m.extra, k)
	}
	a := byCfg["default"]
	if len(a) == 0 || len(byCfg["purego"]) == 0 {
		m.addInconclusive("transcripts of one build configuration are missing: cross-build comparison not done")
		return nil
	}
	for _, other := range []string{"purego", "386", "amd64v3", "amd64v4"} {
		b := byCfg[other]
		if len(b) == 0 {
			if other == "386" {
				m.addInconclusive("no transcripts from the GOARCH=386 build (cross-build or execution not possible here)")
			}
			if other == "amd64v3" {
				m.addInconclusive("no transcripts from the GOAMD64=v3 build (this machine cannot execute it, or it did not build)")
			}
			if other == "amd64v4" && rc.tier == "thorough" {
				m.addInconclusive("no transcripts from the GOAMD64=v4 build (this machine cannot execute it, or it did not build)")
			}
			continue
		}
		compared, limbSame := 0, 0
		for id, pa := range a {
			pb, ok := b[id]
			if !ok {
				continue
			}
			compared++
			if pa[1] == pb[1] {
				limbSame++
			}
			if pa[0] != pb[0] {
				var cid int64
				fmt.Sscan(id, &cid)
				m.violations = append(m.violations, taggedViolation{Violation: mon.Violation{Case: cid, Kind: "default and " + other + " builds disagree on the value-level transcript of the same program",
					Detail: map[string]any{"chunk": id, "default": pa[0], other: pb[0]}}, Config: other})
			}
		}
		m.extra["chunks compared: default vs "+other] = compared
		m.extra["chunks whose Multiply/Square outputs were also limb-for-limb identical, default vs "+other+" (recorded, not deciding)"] = limbSame
		if compared == 0 {
			m.addInconclusive("no chunk was executed under both default and " + other)
		}
	}
	return nil
}

// c20Stages: the two configurations the property names, plus the other configurations this
// machine can execute (extra reach, reported separately): the portable code with a 32-bit int
// (GOARCH=386) and the optimised build for a newer micro-architecture level (GOAMD64=v3), where
// both the compiler's code and any level-specific assembly differ.
func c20Stages() []stage {
	st := []stage{{config: "default"}, {config: "purego"}, {config: "386", optional: true}}
	if hostRunsAMD64v3() {
		st = append(st, stage{config: "amd64v3", optional: true})
	}
	if hostRunsAMD64v4() {
		st = append(st, stage{config: "amd64v4", thoroughOnly: true, optional: true})
	}
	return st
}

func init() {
	plans["C20"] = &plan{
		stages:      c20Stages(),
		rule:        "the same monitor runs in a worker built without tags (amd64 assembly feMul/feSquare) and in one built with -tags purego from the same working tree. Each chunk (seeded by its index) (1) evaluates Multiply and Square on 24 operand pairs drawn from the reachable-representation recipes, half of them limb-maximising (limbs at 2^51+2^32, limb0 at 2^51+19*2^32), comparing value (Bytes and raw limbs) with math/big and asserting output limbs < 2^52 in each build; (2) places out/a/b at the start or end of an mmap'ed page bordered by PROT_NONE pages for all aliasing patterns (out=a, out=b, a=b, all equal), so any access outside the 40-byte operands is a fatal fault attributed to the chunk; (3) runs a deterministic public-API program (field inversion/sqrt/wide reduction, scalar arithmetic, decoding of arbitrary bytes, all point arithmetic and all five multiplications, encodings, Montgomery form, exported coordinates) hashing every value-level output; the controller compares the per-chunk hashes across the builds (default vs purego as the property says; default vs GOARCH=386 and default vs GOAMD64=v3 as extra configurations where this machine can run them). distinct by (operation, operand values and raw limbs).",
		assumptions: append([]string{"only the configurations this machine can execute are monitored: amd64 default and purego; field/fe_arm64.s cannot be run here"}, commonAssumptions...),
		minEvals:    1000,
		custom:      compareBuilds,
	}
}

func init() {
	// field-level monitors: the portable field code (purego) and a 32-bit int/uint (GOARCH=386)
	for _, p := range []string{"C09", "C10", "C16"} {
		alsoIn(plans[p], "purego", "386")
	}
	// byte-level scalar and point decoders/encoders with a 32-bit int
	for _, p := range []string{"C04", "C05", "C08"} {
		alsoIn(plans[p], "386")
	}
}
