package main

// plans maps each property to the stages (build configuration x monitor mode) that decide
// it, the case-generation rule reported in the evidence, and the assumptions.
var commonAssumptions = []string{
	"the math/big reference model (self-tested at every worker start against RFC 8032/7748 vectors, crypto/ecdh, [l]B=O, torsion orders) is correct",
	"the Go toolchain, runtime and math/big of this image are correct",
	"held on the executions described under coverage only; nothing is proved",
}

var plans = map[string]*plan{
	"C01": {
		stages: []stage{{config: "default"}},
		rule: "case i (seeded by (VERIF_SEED, property, i)) picks one of the 5 scalar-multiplication entry points (round robin), scalars from a mixture of structured classes (boundary values, 2^i(+-1), radix-16 digit extremes, NAF window-boundary runs, sparse, nibble extremes) and uniform, points from the whole group of order 8l ([k]B+T_j, small-order points, uniform decoded points) each built through a random public-API route (canonical/non-canonical decoding, SetExtendedCoordinates with a projective scale and per-coordinate limb recipes, via addition, via negation), term counts {0,1,2,3,4,8,17}; each case is executed under >=3 receiver states (zero value, identity, arbitrary point, previous result, aliased to an input) and every execution is one evaluation: returned pointer, coordinates (Z!=0, curve, XY=ZT), affine point and Bytes are compared with the reference sum, and results are compared across receiver states. non-trivial = some scalar > 1 and some point != identity; distinct = by hash of (entry, scalars, point encodings, construction route, receiver state).",
		assumptions: commonAssumptions,
		minEvals:    1000,
	},
}
