// vctl is the controller: it rebuilds the worker(s) from /repo's working tree, fans out
// child processes, merges what the monitors observed, applies KNOWN_FINDINGS.txt, writes
// the evidence file and prints VIOLATION / KNOWN-FINDING / INCONCLUSIVE lines.
//
// Exit codes: 0 held on everything explored; 1 at least one VIOLATION; 2 could not decide.
package main

import (
	"encoding/binary"
	"encoding/json"
	"flag"
	"fmt"
	"os"
	"os/exec"
	"path/filepath"
	"runtime"
	"sort"
	"strconv"
	"strings"
	"sync"
	"time"

	"verifharness/mon"
)

// verifDir is where this copy of the machinery lives (vcheck passes its own directory).
var verifDir = envOr("VERIF_DIR", "/verif")

// repoDir is the tree the library is built from: /repo, or $VERIF_REPO for background sweeps
// that must not be disturbed by edits to /repo (the registered commands never set it).
var repoDir = "/repo"

// outDir receives evidence and replay files: this copy of /verif, except when the library
// under test is not /repo (seed and mutant experiments), whose results must never be mistaken
// for evidence about /repo.
var outDir = verifDir

// modFlags: when the library comes from somewhere else than /repo, builds use a copy of the
// harness go.mod whose replace directive points there.
var modFlags = "-mod=mod"

func setupRepoDir() {
	if v := os.Getenv("VERIF_REPO"); v != "" && v != "/repo" {
		repoDir = v
		outDir = envOr("VERIF_OUT", filepath.Join(os.TempDir(), "verif-alt-out"))
		b, err := os.ReadFile(filepath.Join(harnessDir, "go.mod"))
		if err != nil {
			fatal2("%v", err)
		}
		mf := filepath.Join(scratch, "alt.mod")
		os.WriteFile(mf, []byte(strings.ReplaceAll(string(b), "=> /repo", "=> "+v)), 0o644)
		if sum, err := os.ReadFile(filepath.Join(harnessDir, "go.sum")); err == nil {
			os.WriteFile(filepath.Join(scratch, "alt.sum"), sum, 0o644)
		} else {
			os.WriteFile(filepath.Join(scratch, "alt.sum"), nil, 0o644)
		}
		modFlags = "-mod=mod -modfile=" + mf
	}
}

var (
	harnessDir = filepath.Join(envOr("VERIF_DIR", "/verif"), "harness")
	scratch    string
	startTime  = time.Now() // wall_s only; never read by an oracle
)

type runCfg struct {
	prop    string
	tier    string
	seed    uint64
	workers int
	only    int64
	replay  string
	verbose bool

	replayMode, replayConfig string
}

func main() {
	if len(os.Args) < 2 {
		fmt.Fprintln(os.Stderr, "usage: vctl <property>|setup [--tier quick|thorough] [--seed n] [--replay file]")
		os.Exit(2)
	}
	prop := os.Args[1]
	fs := flag.NewFlagSet("vctl", flag.ExitOnError)
	tier := fs.String("tier", envOr("VERIF_TIER", "quick"), "tier")
	seedS := fs.String("seed", envOr("VERIF_SEED", "1"), "seed")
	workers := fs.Int("workers", runtime.NumCPU(), "worker processes")
	replay := fs.String("replay", "", "replay file")
	verbose := fs.Bool("v", false, "verbose")
	fs.Parse(os.Args[2:])
	seed, err := strconv.ParseUint(*seedS, 10, 64)
	if err != nil {
		// any string is accepted as a seed: hash it
		seed = 0
		for _, ch := range *seedS {
			seed = seed*131 + uint64(ch)
		}
	}
	if *tier != "quick" && *tier != "thorough" {
		*tier = "quick"
	}
	scratch = os.Getenv("VERIF_SCRATCH")
	if scratch == "" {
		d, err := os.MkdirTemp("", "verif-scratch-")
		if err != nil {
			fatal2("cannot create scratch: %v", err)
		}
		scratch = d
		defer os.RemoveAll(d)
	}
	setupRepoDir()
	rc := &runCfg{prop: prop, tier: *tier, seed: seed, workers: *workers, only: -1, replay: *replay, verbose: *verbose}
	cleanup := func() {
		if scratch != os.Getenv("VERIF_SCRATCH") {
			os.RemoveAll(scratch)
		}
	}
	if prop == "setup" {
		code := doSetup(rc)
		cleanup()
		os.Exit(code)
	}
	if prop == "lackey" {
		code := lackeyCLI(fs.Args())
		cleanup()
		os.Exit(code)
	}
	plan, ok := plans[prop]
	if !ok {
		fatal2("unknown property %q", prop)
	}
	code := runProperty(rc, plan)
	if scratch != os.Getenv("VERIF_SCRATCH") {
		os.RemoveAll(scratch)
	}
	os.Exit(code)
}

func envOr(k, d string) string {
	if v := os.Getenv(k); v != "" {
		return v
	}
	return d
}

func fatal2(f string, a ...any) {
	fmt.Fprintf(os.Stderr, "vctl: "+f+"\n", a...)
	fmt.Printf("CANNOT-DECIDE: "+f+"\n", a...)
	os.Exit(2)
}

// ---------- building ----------

type buildSpec struct {
	name    string   // label: default | purego | race | instr | ...
	tags    []string // extra build tags (verif is always on)
	race    bool
	overlay string // "" | "globals" | "instr"
	pkg     string // package to build, default ./cmd/vwork
	gcflags string
	goarch  string   // cross-build (386: the portable code with a 32-bit int; runs on this host)
	goenv   []string // further build environment (GOAMD64=v3: another optimised configuration)
}

var (
	buildMu    sync.Mutex
	buildCache = map[string]string{}
)

func goEnv() []string {
	env := os.Environ()
	env = append(env, "GOFLAGS="+modFlags, "GOPROXY=off", "GOSUMDB=off", "GOTOOLCHAIN=local", "CGO_ENABLED=0")
	return env
}

func goEnvCgo() []string {
	env := os.Environ()
	env = append(env, "GOFLAGS="+modFlags, "GOPROXY=off", "GOSUMDB=off", "GOTOOLCHAIN=local", "CGO_ENABLED=1")
	return env
}

// buildTool builds one of the harness's own commands (no library dependency).
func buildTool(name string) (string, error) {
	buildMu.Lock()
	defer buildMu.Unlock()
	return buildToolLocked(name)
}

func buildToolLocked(name string) (string, error) {
	if p, ok := buildCache["tool:"+name]; ok {
		return p, nil
	}
	out := filepath.Join(scratch, name)
	cmd := exec.Command("go", "build", "-o", out, "./cmd/"+name)
	cmd.Dir = harnessDir
	cmd.Env = goEnv()
	if b, err := cmd.CombinedOutput(); err != nil {
		return "", fmt.Errorf("building %s: %v\n%s", name, err, b)
	}
	buildCache["tool:"+name] = out
	return out, nil
}

// overlayFor prepares (once) the overlay of the given kind and returns the overlay.json path
// plus notes (inconclusive parts).
var overlayNotes = map[string][]string{}

func overlayFor(kind string, tags []string) (string, error) {
	key := "overlay:" + kind + ":" + strings.Join(tags, ",")
	if p, ok := buildCache[key]; ok {
		return p, nil
	}
	tool, err := buildToolLocked("ctinstr")
	if err != nil {
		return "", err
	}
	dir := filepath.Join(scratch, "overlay-"+kind+"-"+strings.Join(tags, "_"))
	os.MkdirAll(dir, 0o755)
	mode := kind
	args := []string{"-repo", repoDir, "-out", dir, "-tags", strings.Join(tags, ",")}
	if kind == "shim" {
		mode = "globals"
		args = append(args, "-shim")
	}
	args = append(args, "-mode", mode)
	cmd := exec.Command(tool, args...)
	cmd.Env = goEnv()
	b, err := cmd.CombinedOutput()
	if err != nil {
		return "", fmt.Errorf("ctinstr %s: %v\n%s", kind, err, b)
	}
	for _, ln := range strings.Split(string(b), "\n") {
		if strings.HasPrefix(ln, "NOTE ") {
			overlayNotes[kind] = append(overlayNotes[kind], strings.TrimPrefix(ln, "NOTE "))
		}
	}
	p := filepath.Join(dir, "overlay.json")
	buildCache[key] = p
	return p, nil
}

// buildWorker builds the worker for a configuration from /repo's current working tree.
func buildWorker(bs buildSpec) (string, error) {
	buildMu.Lock()
	defer buildMu.Unlock()
	if p, ok := buildCache["worker:"+bs.name]; ok {
		return p, nil
	}
	tags := append([]string{"verif"}, bs.tags...)
	args := []string{"build"}
	env := goEnv()
	if bs.race {
		args = append(args, "-race")
		env = goEnvCgo()
	}
	if bs.overlay != "" {
		ov, err := overlayFor(bs.overlay, bs.tags)
		if err != nil {
			return "", err
		}
		args = append(args, "-overlay", ov)
		tags = append(tags, "verif_"+bs.overlay)
		if bs.overlay == "instr" {
			tags = append(tags, "verif_globals")
		}
		if bs.overlay == "shim" {
			tags = append(tags, "verif_globals")
			if b, err := os.ReadFile(ov); err != nil || !strings.Contains(string(b), "zz_verif_shim.go") {
				tags = tags[:len(tags)-2] // no shim in this tree: plain globals build
				tags = append(tags, "verif_globals")
			}
		}
	}
	if bs.gcflags != "" {
		args = append(args, "-gcflags", bs.gcflags)
	}
	if bs.goarch != "" {
		env = append(env, "GOARCH="+bs.goarch)
	}
	env = append(env, bs.goenv...)
	pkg := bs.pkg
	if pkg == "" {
		pkg = "./cmd/vwork"
	}
	out := filepath.Join(scratch, "vwork-"+bs.name)
	args = append(args, "-tags", strings.Join(tags, ","), "-o", out, pkg)
	if os.Getenv("VERIF_DEBUG") != "" {
		fmt.Fprintln(os.Stderr, "go", strings.Join(args, " "))
	}
	cmd := exec.Command("go", args...)
	cmd.Dir = harnessDir
	cmd.Env = env
	if b, err := cmd.CombinedOutput(); err != nil {
		if bs.overlay == "shim" {
			// the optional shim does not compile against this tree: fall back to the plain build
			overlayNotes["shim"] = append(overlayNotes["shim"], "optional C01 shim does not compile against this tree; per-transition table checks not run")
			fb := bs
			fb.overlay = "globals"
			buildMu.Unlock()
			p, err2 := buildWorker(fb)
			buildMu.Lock()
			if err2 == nil {
				buildCache["worker:"+bs.name] = p
			}
			return p, err2
		}
		return "", fmt.Errorf("go %s: %v\n%s", strings.Join(args, " "), err, b)
	}
	buildCache["worker:"+bs.name] = out
	return out, nil
}

var specs = map[string]buildSpec{
	"default":      {name: "default", overlay: "globals"},
	"purego":       {name: "purego", tags: []string{"purego"}, overlay: "globals"},
	"race":         {name: "race", race: true, overlay: "globals"},
	"instr":        {name: "instr", overlay: "instr"},
	"instr-purego": {name: "instr-purego", tags: []string{"purego"}, overlay: "instr"},
	"instr-race":   {name: "instr-race", race: true, overlay: "instr"},
	"plain":        {name: "plain"},
	"shim":         {name: "shim", overlay: "shim"},
	"386":          {name: "386", overlay: "globals", goarch: "386"},
	"amd64v3":      {name: "amd64v3", overlay: "globals", goenv: []string{"GOAMD64=v3"}},
	"amd64v4":      {name: "amd64v4", overlay: "globals", goenv: []string{"GOAMD64=v4"}},
}

// hostRunsAMD64v4 reports whether this machine can execute GOAMD64=v4 binaries.
func hostRunsAMD64v4() bool {
	return hostRunsAMD64v3() && cpuHas("avx512f", "avx512bw", "avx512cd", "avx512dq", "avx512vl")
}

// hostRunsAMD64v3 reports whether this machine can execute GOAMD64=v3 binaries.
func hostRunsAMD64v3() bool {
	return cpuHas("avx", "avx2", "bmi1", "bmi2", "f16c", "fma", "abm", "movbe", "xsave")
}

func cpuHas(want ...string) bool {
	b, err := os.ReadFile("/proc/cpuinfo")
	if err != nil || runtime.GOARCH != "amd64" {
		return false
	}
	flags := ""
	for _, ln := range strings.Split(string(b), "\n") {
		if strings.HasPrefix(ln, "flags") {
			flags = " " + ln + " "
			break
		}
	}
	for _, f := range want {
		if !strings.Contains(flags, " "+f+" ") {
			return false
		}
	}
	return true
}

// ---------- running workers ----------

type stage struct {
	thoroughOnly bool // stage runs in the thorough tier only
	optional     bool // extra reach: if the configuration cannot be built or run here, note it and go on
	config       string
	mode         string
	workers      int // 0 = all
	env          []string
	timeout      time.Duration
}

type workerOutcome struct {
	res     *mon.Result
	crashed bool
	crashAt int64
	timeout bool
	stderr  string
	hashes  string
}

func runStage(rc *runCfg, st stage) ([]workerOutcome, error) {
	spec, ok := specs[st.config]
	if !ok {
		return nil, fmt.Errorf("unknown config %s", st.config)
	}
	bin, err := buildWorker(spec)
	if err != nil {
		return nil, err
	}
	n := st.workers
	if n <= 0 {
		n = rc.workers
	}
	if rc.only >= 0 {
		n = 1
	}
	to := st.timeout
	if to == 0 {
		to = 20 * time.Minute
		if rc.tier == "thorough" {
			to = 3 * time.Hour
		}
	}
	outs := make([]workerOutcome, n)
	var wg sync.WaitGroup
	sem := make(chan struct{}, rc.workers)
	for w := 0; w < n; w++ {
		wg.Add(1)
		go func(w int) {
			defer wg.Done()
			sem <- struct{}{}
			defer func() { <-sem }()
			base := filepath.Join(scratch, fmt.Sprintf("%s-%s-%s-%d", rc.prop, st.config, st.mode, w))
			args := []string{"-prop", rc.prop, "-seed", fmt.Sprint(rc.seed), "-tier", rc.tier, "-config", st.config,
				"-worker", fmt.Sprint(w), "-nworkers", fmt.Sprint(n), "-case", fmt.Sprint(rc.only),
				"-out", base + ".json", "-hashes", base + ".hashes", "-progress", base + ".progress", "-mode", st.mode}
			cmd := exec.Command(bin, args...)
			cmd.Env = os.Environ()
			for _, e := range st.env {
				cmd.Env = append(cmd.Env, strings.ReplaceAll(e, "%w", fmt.Sprint(w)))
			}
			cmd.Env = append(cmd.Env, "VERIF_SCRATCH="+scratch)
			errf, _ := os.Create(base + ".stderr")
			cmd.Stderr = errf
			cmd.Stdout = errf
			done := make(chan error, 1)
			if err := cmd.Start(); err != nil {
				outs[w] = workerOutcome{crashed: true, stderr: err.Error()}
				return
			}
			go func() { done <- cmd.Wait() }()
			var werr error
			select {
			case werr = <-done:
			case <-time.After(to):
				cmd.Process.Kill()
				<-done
				outs[w].timeout = true
			}
			errf.Close()
			o := &outs[w]
			o.hashes = base + ".hashes"
			if b, err := os.ReadFile(base + ".json"); err == nil {
				var r mon.Result
				if json.Unmarshal(b, &r) == nil {
					o.res = &r
				}
			}
			if o.res == nil && !o.timeout {
				o.crashed = true
				_ = werr
				if pb, err := os.ReadFile(base + ".progress"); err == nil && len(pb) >= 8 {
					o.crashAt = int64(binary.LittleEndian.Uint64(pb[:8])) - 1
				} else {
					o.crashAt = -1
				}
				if eb, err := os.ReadFile(base + ".stderr"); err == nil {
					s := string(eb)
					if len(s) > 3000 {
						s = s[:3000]
					}
					o.stderr = s
				}
			}
		}(w)
	}
	wg.Wait()
	return outs, nil
}

// ---------- merging ----------

type merged struct {
	evaluations  int64
	cases        int64
	tallies      map[string]int64
	maxima       map[string]uint64
	bitsets      map[string][]byte
	samples      []map[string]any
	violations   []taggedViolation
	inconclusive []string
	hashFiles    []string
	extra        map[string]any
	configs      map[string]int64 // evaluations per config
}

type taggedViolation struct {
	mon.Violation
	Config string `json:"config"`
	Mode   string `json:"mode"`
}

func newMerged() *merged {
	return &merged{tallies: map[string]int64{}, maxima: map[string]uint64{}, bitsets: map[string][]byte{}, extra: map[string]any{}, configs: map[string]int64{}}
}

func (m *merged) addInconclusive(s string) {
	for _, x := range m.inconclusive {
		if x == s {
			return
		}
	}
	m.inconclusive = append(m.inconclusive, s)
}

func (m *merged) absorb(rc *runCfg, st stage, outs []workerOutcome) {
	for w, o := range outs {
		if o.timeout {
			m.addInconclusive(fmt.Sprintf("watchdog fired for %s/%s worker %d", st.config, st.mode, w))
			continue
		}
		if o.crashed {
			// A process-fatal event while running a case is attributed to that case.
			m.violations = append(m.violations, taggedViolation{Violation: mon.Violation{
				Case: o.crashAt, Kind: "process-fatal event in worker (fatal error / signal / unrecovered panic)",
				Detail: map[string]any{"stderr": o.stderr, "worker": w, "nworkers": len(outs)}}, Config: st.config, Mode: st.mode})
			continue
		}
		r := o.res
		m.evaluations += r.Evaluations
		m.configs[st.config] += r.Evaluations
		m.cases += r.Cases
		for k, v := range r.Tallies {
			m.tallies[k] += v
		}
		for k, v := range r.Maxima {
			if v > m.maxima[k] {
				m.maxima[k] = v
			}
		}
		for k, b := range r.Bitsets {
			if m.bitsets[k] == nil {
				m.bitsets[k] = make([]byte, len(b))
			}
			for i := range b {
				if i < len(m.bitsets[k]) {
					m.bitsets[k][i] |= b[i]
				}
			}
		}
		for _, s := range r.Samples {
			if len(m.samples) < 24 {
				s["config"] = st.config
				m.samples = append(m.samples, s)
			}
		}
		for _, v := range r.Violations {
			m.violations = append(m.violations, taggedViolation{Violation: v, Config: st.config, Mode: st.mode})
		}
		for _, s := range r.Inconclusive {
			m.addInconclusive(s)
		}
		for k, v := range r.Extra {
			m.extra[fmt.Sprintf("%s/%s/w%d/%s", st.config, st.mode, w, k)] = v
		}
		m.hashFiles = append(m.hashFiles, o.hashes)
	}
}

func (m *merged) distinct() int64 {
	var all []uint64
	for _, f := range m.hashFiles {
		b, err := os.ReadFile(f)
		if err != nil {
			continue
		}
		for i := 0; i+8 <= len(b); i += 8 {
			all = append(all, binary.LittleEndian.Uint64(b[i:]))
		}
	}
	sort.Slice(all, func(i, j int) bool { return all[i] < all[j] })
	var n int64
	for i := range all {
		if i == 0 || all[i] != all[i-1] {
			n++
		}
	}
	return n
}

func popcount(b []byte) int {
	n := 0
	for _, x := range b {
		for ; x != 0; x &= x - 1 {
			n++
		}
	}
	return n
}

// ---------- known findings ----------

type finding struct {
	prop, site, class, text string
}

func loadFindings() []finding {
	b, err := os.ReadFile(filepath.Join(verifDir, "KNOWN_FINDINGS.txt"))
	if err != nil {
		return nil
	}
	var fs []finding
	for _, ln := range strings.Split(string(b), "\n") {
		ln = strings.TrimSpace(ln)
		if !strings.HasPrefix(ln, "finding:") {
			continue
		}
		f := finding{text: strings.TrimSpace(strings.TrimPrefix(ln, "finding:"))}
		for _, tok := range strings.Fields(f.text) {
			switch {
			case strings.HasPrefix(tok, "property="):
				f.prop = strings.TrimPrefix(tok, "property=")
			case strings.HasPrefix(tok, "site="):
				f.site = strings.TrimPrefix(tok, "site=")
			case strings.HasPrefix(tok, "class="):
				f.class = strings.TrimPrefix(tok, "class=")
			}
		}
		fs = append(fs, f)
	}
	return fs
}

func matchFinding(fs []finding, prop string, v mon.Violation) *finding {
	for i := range fs {
		f := &fs[i]
		if f.prop == prop && f.site != "" && f.site == v.Site && f.class == v.Class {
			return f
		}
	}
	return nil
}

// ---------- evidence ----------

func writeEvidence(rc *runCfg, m *merged, nViol int, rule string, assumptions []string) error {
	cov := map[string]any{
		"evaluations":                   m.evaluations,
		"distinct_nontrivial":           m.distinct(),
		"rule":                          rule,
		"samples":                       m.samples,
		"cases":                         m.cases,
		"tallies":                       m.tallies,
		"maxima_observed":               m.maxima,
		"evaluations_per_configuration": m.configs,
		"inconclusive":                  m.inconclusive,
	}
	bs := map[string]string{}
	for k, b := range m.bitsets {
		bs[k] = fmt.Sprintf("%d of %d", popcount(b), 8*len(b))
	}
	if len(bs) > 0 {
		cov["coverage_bitsets_seen"] = bs
	}
	if len(m.extra) > 0 {
		cov["extra"] = m.extra
	}
	if m.samples == nil {
		cov["samples"] = []any{}
	}
	ev := map[string]any{
		"property_id": rc.prop,
		"tier":        rc.tier,
		"seed":        rc.seed,
		"level":       "exploration",
		"coverage":    cov,
		"assumptions": assumptions,
		"wall_s":      time.Since(startTime).Seconds(),
		"violations":  nViol,
	}
	b, err := json.MarshalIndent(ev, "", " ")
	if err != nil {
		return err
	}
	os.MkdirAll(filepath.Join(outDir, "evidence"), 0o755)
	return os.WriteFile(filepath.Join(outDir, "evidence", rc.prop+".json"), b, 0o644)
}

func writeReplay(rc *runCfg, n int, v taggedViolation) string {
	dir := filepath.Join(outDir, "replays")
	os.MkdirAll(dir, 0o755)
	p := filepath.Join(dir, fmt.Sprintf("%s-%d-%d.json", rc.prop, rc.seed, n))
	rep := map[string]any{
		"property": rc.prop, "seed": rc.seed, "tier": rc.tier, "config": v.Config, "mode": v.Mode,
		"case": v.Case, "kind": v.Kind, "site": v.Site, "class": v.Class, "detail": v.Detail,
		"replay_cmd": fmt.Sprintf("%s/vcheck %s --replay %s", verifDir, rc.prop, p),
	}
	b, _ := json.MarshalIndent(rep, "", " ")
	os.WriteFile(p, b, 0o644)
	return p
}

// ---------- generic property run ----------

type plan struct {
	stages      []stage
	rule        string
	assumptions []string
	minEvals    int64
	custom      func(rc *runCfg, pl *plan, m *merged) error // extra controller-side work
	runner      func(rc *runCfg, pl *plan, m *merged) error // replaces the stage loop entirely
}

func runProperty(rc *runCfg, pl *plan) int {
	if rc.replay != "" {
		b, err := os.ReadFile(rc.replay)
		if err != nil {
			fatal2("cannot read replay file: %v", err)
		}
		var rep struct {
			Seed   uint64 `json:"seed"`
			Tier   string `json:"tier"`
			Config string `json:"config"`
			Mode   string `json:"mode"`
			Case   int64  `json:"case"`
		}
		if err := json.Unmarshal(b, &rep); err != nil {
			fatal2("bad replay file: %v", err)
		}
		rc.seed, rc.tier, rc.only = rep.Seed, rep.Tier, rep.Case
		rc.replayMode, rc.replayConfig = rep.Mode, rep.Config
		var sts []stage
		for _, st := range pl.stages {
			if st.config == rep.Config && st.mode == rep.Mode {
				sts = append(sts, st)
			}
		}
		if len(sts) == 0 {
			sts = pl.stages
		}
		if pl.custom != nil {
			sts = pl.stages // controller-side comparisons need every stage
		}
		pl = &plan{stages: sts, rule: pl.rule, assumptions: pl.assumptions, custom: pl.custom, runner: pl.runner}
	}
	m := newMerged()
	if pl.runner != nil {
		if err := pl.runner(rc, pl, m); err != nil {
			fatal2("%v", err)
		}
	} else {
		for _, st := range pl.stages {
			if st.thoroughOnly && rc.tier != "thorough" {
				continue
			}
			outs, err := runStage(rc, st)
			if err != nil {
				if st.optional {
					m.addInconclusive(fmt.Sprintf("the additional %s configuration could not be built or run here: %v", st.config, err))
					continue
				}
				fatal2("%v", err)
			}
			m.absorb(rc, st, outs)
		}
	}
	if pl.custom != nil {
		if err := pl.custom(rc, pl, m); err != nil {
			fatal2("%v", err)
		}
	}
	for kind, notes := range overlayNotes {
		for _, n := range notes {
			m.addInconclusive("overlay(" + kind + "): " + n)
		}
	}
	return report(rc, pl, m)
}

func report(rc *runCfg, pl *plan, m *merged) int {
	findings := loadFindings()
	nViol := 0
	known := map[string]int{}
	// interleave violations of different stages so that the first replay files written cover
	// every stage that found something
	rank := map[string]int{}
	type rv struct {
		r int
		v taggedViolation
	}
	var rvs []rv
	for _, v := range m.violations {
		k := v.Config + "/" + v.Mode
		rvs = append(rvs, rv{rank[k], v})
		rank[k]++
	}
	sort.SliceStable(rvs, func(i, j int) bool { return rvs[i].r < rvs[j].r })
	byStage := map[string]int{}
	for i := range rvs {
		m.violations[i] = rvs[i].v
	}
	for _, v := range m.violations {
		if matchFinding(findings, rc.prop, v.Violation) == nil {
			byStage[v.Config+"/"+v.Mode]++
		}
	}
	if len(byStage) > 1 {
		fmt.Printf("violations by stage: %v\n", byStage)
	}
	for _, v := range m.violations {
		if f := matchFinding(findings, rc.prop, v.Violation); f != nil {
			known[f.text]++
			continue
		}
		nViol++
		if nViol <= 10 {
			p := writeReplay(rc, nViol, v)
			fmt.Printf("VIOLATION property=%s replay=%s\n", rc.prop, p)
			d, _ := json.Marshal(v.Detail)
			if len(d) > 1500 {
				d = d[:1500]
			}
			fmt.Printf("  kind=%q config=%s case=%d %s\n", v.Kind, v.Config, v.Case, d)
		}
	}
	for t, n := range known {
		fmt.Printf("KNOWN-FINDING: %s (observed %d times in this run)\n", t, n)
	}
	for _, s := range m.inconclusive {
		fmt.Printf("INCONCLUSIVE property=%s %s\n", rc.prop, s)
	}
	if rc.replay != "" {
		if nViol == 0 {
			fmt.Printf("replay: the violation did not reproduce on the current tree\n")
			return 0
		}
		return 1
	}
	if err := writeEvidence(rc, m, nViol, pl.rule, pl.assumptions); err != nil {
		fatal2("writing evidence: %v", err)
	}
	dn := m.distinct()
	fmt.Printf("%s tier=%s seed=%d: %d evaluations, %d distinct non-trivial cases, %d violations, %d inconclusive notes, %.1fs\n",
		rc.prop, rc.tier, rc.seed, m.evaluations, dn, nViol, len(m.inconclusive), time.Since(startTime).Seconds())
	if nViol > 0 {
		return 1
	}
	min := pl.minEvals
	if min == 0 {
		min = 2
	}
	if m.evaluations < min || dn < 2 {
		fmt.Printf("CANNOT-DECIDE: sanity gate: the monitor observed only %d evaluations (%d distinct)\n", m.evaluations, dn)
		return 2
	}
	return 0
}

func doSetup(rc *runCfg) int {
	// Warm the build cache for every configuration, so later checks only pay for what changed.
	for _, name := range []string{"default", "purego", "race", "instr", "instr-race"} {
		if _, err := buildWorker(specs[name]); err != nil {
			fmt.Fprintf(os.Stderr, "setup: %v\n", err)
			return 2
		}
	}
	if _, err := buildCtwork(""); err != nil {
		fmt.Fprintf(os.Stderr, "setup: %v\n", err)
		return 2
	}
	fmt.Println("setup ok")
	return 0
}
