package main

import (
	"bufio"
	"fmt"
	"os"
)

// lackeyCLI: `vctl lackey <ctwork> <assign-a> <assign-b> [dump]` — manual comparison of two
// machine-level traces, for debugging the tracer itself.
func lackeyCLI(args []string) int {
	if len(args) < 3 {
		fmt.Println("usage: vctl lackey <ctwork> <assign-a> <assign-b> [dump]")
		return 2
	}
	st, err := loadSymtab(args[0])
	if err != nil {
		fmt.Println(err)
		return 2
	}
	if len(args) > 3 && args[3] == "save" {
		f, _ := os.Create(args[4])
		w := bufio.NewWriterSize(f, 1<<20)
		debugSave = w
		if len(args) > 5 {
			fmt.Sscan(args[5], &debugRegion)
		}
		runLackey(args[0], args[1], st, nil)
		w.Flush()
		f.Close()
		return 0
	}
	ra, ha, err := runLackey(args[0], args[1], st, &dumpReq{-1, 0})
	if err != nil {
		fmt.Println(err)
	}
	rb, hb, err := runLackey(args[0], args[2], st, &dumpReq{-1, 0})
	if err != nil {
		fmt.Println(err)
	}
	for j := 0; j < len(ha) && j < len(hb); j++ {
		if ha[j] != hb[j] {
			fmt.Println("HEAD DIFF at", j)
			for k := j - 5; k < j+5 && k < len(ha) && k < len(hb); k++ {
				if k >= 0 {
					fmt.Println("   ", k, ha[k], " | ", hb[k])
				}
			}
			break
		}
	}
	fmt.Println("regions", len(ra), len(rb))
	for i := range ra {
		if i >= len(rb) {
			break
		}
		eq := ra[i].Records == rb[i].Records
		first := -1
		for c := range ra[i].Chunks {
			if c >= len(rb[i].Chunks) || ra[i].Chunks[c] != rb[i].Chunks[c] {
				eq = false
				first = c
				break
			}
		}
		fmt.Printf("region %d: %d vs %d records equal=%v firstdiffchunk=%d\n", i, ra[i].Records, rb[i].Records, eq, first)
		if !eq && len(args) > 3 {
			if first < 0 {
				first = len(ra[i].Chunks) - 1
			}
			_, da, _ := runLackey(args[0], args[1], st, &dumpReq{i, first})
			_, db, _ := runLackey(args[0], args[2], st, &dumpReq{i, first})
			for j := 0; j < len(da) && j < len(db); j++ {
				if da[j] != db[j] {
					for k := j - 8; k < j+4 && k < len(da) && k < len(db); k++ {
						if k >= 0 {
							fmt.Println("   ", k, da[k], " | ", db[k])
						}
					}
					break
				}
			}
			return 0
		}
	}
	return 0
}
