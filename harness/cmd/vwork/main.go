// vwork is the worker: it links the library built from /repo's working tree and runs one
// monitor over its share of the case list, reporting a JSON result.
package main

import (
	"encoding/json"
	"flag"
	"fmt"
	"os"

	"verifharness/mon"
	"verifharness/raw"
	"verifharness/ref"
)

func main() {
	prop := flag.String("prop", "", "property id")
	seed := flag.Uint64("seed", 1, "seed")
	tier := flag.String("tier", "quick", "quick|thorough")
	config := flag.String("config", "default", "build configuration label")
	worker := flag.Int("worker", 0, "worker index")
	nworkers := flag.Int("nworkers", 1, "worker count")
	only := flag.Int64("case", -1, "run only this case (replay)")
	out := flag.String("out", "", "result file")
	hashes := flag.String("hashes", "", "distinct-hash file")
	progress := flag.String("progress", "", "progress file")
	mode := flag.String("mode", "", "monitor-specific sub-mode")
	verbose := flag.Bool("v", false, "verbose")
	flag.Parse()

	c := mon.NewCtx(*prop, *seed, *tier, *config, *worker, *nworkers, *only, *progress)
	c.Verbose = *verbose
	c.Mode = *mode
	if err := ref.SelfTest(); err != nil {
		c.Inconclusive("oracle self-test failed: " + err.Error())
		c.Res.Extra["fatal"] = "oracle self-test"
	} else {
		if ok, why := raw.OK(); !ok {
			c.Inconclusive("raw layout guard: " + why)
		}
		f, ok := mon.Monitors[*prop]
		if !ok {
			fmt.Fprintln(os.Stderr, "unknown property", *prop)
			os.Exit(2)
		}
		c.RunMonitor(f)
	}
	c.Finish(*hashes)
	b, _ := json.Marshal(&c.Res)
	if *out == "" {
		os.Stdout.Write(b)
		os.Stdout.Write([]byte("\n"))
	} else if err := os.WriteFile(*out, b, 0o644); err != nil {
		fmt.Fprintln(os.Stderr, err)
		os.Exit(2)
	}
}
