// ctwork is the subject of the machine-level leakage tracer: it takes one secret assignment
// (raw operand images, fixed size, hex in argv[1]), copies the operands into
// package-level slots (fixed addresses) and runs every constant-time entry point between
// two marker calls, after a warm-up (stack pre-grown, lazily built tables built). It is run under `valgrind --tool=lackey --trace-mem=yes`
// with GOMAXPROCS=1 GOGC=off GODEBUG=asyncpreemptoff=1.
//
// It imports nothing but the library and the tiny ctops table: no fmt, no maps, no system
// call between process start and the end of the traced pass, so that heap and stack
// addresses are the same in every run.
package main

import (
	"os"

	"verifharness/ctops"
)

var slots ctops.Slots

var sink int

var image [1 << 15]byte

//go:noinline
func markBegin(i int) { sink += i }

//go:noinline
func markEnd(i int) { sink -= i }

func unhex(c byte) (byte, bool) {
	switch {
	case c >= '0' && c <= '9':
		return c - '0', true
	case c >= 'a' && c <= 'f':
		return c - 'a' + 10, true
	}
	return 0, false
}

func main() {
	if len(os.Args) < 2 {
		os.Exit(2)
	}
	// argv, not the environment: os.Getenv builds a map of the whole environment, and a map's
	// allocation pattern depends on the runtime's random hash seed
	h := os.Args[1]
	if len(h) == 0 || len(h)/2 > len(image) || !ctops.LayoutOK() {
		os.Exit(2)
	}
	n := 0
	for i := 0; i+1 < len(h); i += 2 {
		a, ok1 := unhex(h[i])
		b, ok2 := unhex(h[i+1])
		if !ok1 || !ok2 {
			os.Exit(2)
		}
		image[n] = a<<4 | b
		n++
	}
	if deep(image[:n], 0) != 0 {
		os.Exit(3)
	}
}

// deep owns a 64 KiB frame that stays live above the traced calls: together with the
// pre-grown stack below, every stack access of the traced code falls in a window around the
// marker's stack pointer that is certainly inside this goroutine's stack (and so can never be
// a heap object).
//
//go:noinline
func deep(data []byte, x int) int {
	var pad [64 << 10]byte
	for i := 0; i < len(pad); i += 4096 {
		pad[i] = byte(i + x)
	}
	// grow the goroutine stack once and for all: no growth (and no stack move) can happen
	// in the traced pass
	sink += growStack(x)
	sink -= growStack(x)
	r := runTraced(data)
	// pad must be read after the traced calls, or the compiler removes it altogether
	return r + use(pad[:]) - use(pad[:])
}

//go:noinline
func runTraced(data []byte) int {
	ops := ctops.Ops()
	// warm-up: build the lazily initialised tables
	o := 0
	for i := range ops {
		in, used := ctops.LoadImage(data[o:], &slots)
		o += used
		if ops[i].Name == "Point.ScalarBaseMult" {
			ops[i].Run(in)
		}
	}
	o = 0
	for i := range ops {
		in, used := ctops.LoadImage(data[o:], &slots)
		o += used
		markBegin(i)
		ops[i].Run(in)
		markEnd(i)
	}
	return sink
}

// growStack touches a 192 KiB frame.
//
//go:noinline
func growStack(x int) int {
	var buf [192 << 10]byte
	for i := 0; i < len(buf); i += 4096 {
		buf[i] = byte(i + x)
	}
	return int(buf[4096]) + int(buf[len(buf)-4096])
}

//go:noinline
func use(b []byte) int { return int(b[4096]) + int(b[len(b)-1]) }
