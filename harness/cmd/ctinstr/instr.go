package main

import (
	"encoding/json"
	"fmt"
	"go/ast"
	"go/importer"
	"go/token"
	"go/types"
	"os"
	"path/filepath"
	"sort"
	"strings"
)

// site is one instrumentation point. Its name is stable under edits elsewhere in the file:
// (file, enclosing function, kind, ordinal of that kind within the function).
type site struct {
	ID       int    `json:"id"`
	Name     string `json:"name"`
	File     string `json:"file"`
	Func     string `json:"func"`
	Kind     string `json:"kind"`
	OnceLit  bool   `json:"once_lit,omitempty"`  // entry of a func literal passed to sync.Once.Do
	OnceHost bool   `json:"once_host,omitempty"` // entry of a function containing a sync.Once.Do call
	Line     int    `json:"line"`
}

var allSites []site

func newSite(file, fn, kind string, ord map[string]int, line int) *site {
	k := fn + ":" + kind
	ord[k]++
	s := site{ID: len(allSites), File: file, Func: fn, Kind: kind, Line: line}
	s.Name = fmt.Sprintf("%s:%s:%s#%d", file, fn, kind, ord[k])
	allSites = append(allSites, s)
	return &allSites[len(allSites)-1]
}

type insertion struct {
	off   int
	close bool
	other int // opens: end offset of the wrapped expression; closes: its start offset
	seq   int
	text  string
}

const farAway = 1 << 40

// importer that serves already-checked repository packages and falls back to source.
type repoImporter struct {
	known map[string]*types.Package
	src   types.Importer
}

func (ri *repoImporter) Import(path string) (*types.Package, error) {
	if p, ok := ri.known[path]; ok {
		return p, nil
	}
	return ri.src.Import(path)
}

var sharedImporter *repoImporter

// allow-list of callees whose arguments need no recording (constant-time by contract, or
// not data dependent).
func calleeAllowed(pkgPath, name string) bool {
	switch pkgPath {
	case "crypto/subtle":
		return true
	case "math/bits":
		return !strings.HasPrefix(name, "Div") && !strings.HasPrefix(name, "Rem")
	case "encoding/binary":
		return true // byte-order accessors: fixed-width loads/stores
	case "errors":
		return name == "New"
	case "sync":
		return name == "Do"
	}
	return false
}

func instrumentPackage(fset *token.FileSet, pi *pkgInfo, files []*ast.File, ctImport, out, repo string, replace map[string]string) error {
	if sharedImporter == nil {
		sharedImporter = &repoImporter{known: map[string]*types.Package{}, src: importer.ForCompiler(fset, "source", nil)}
	}
	info := &types.Info{
		Types:      map[ast.Expr]types.TypeAndValue{},
		Uses:       map[*ast.Ident]types.Object{},
		Defs:       map[*ast.Ident]types.Object{},
		Selections: map[*ast.SelectorExpr]*types.Selection{},
	}
	var terrs []string
	conf := types.Config{Importer: sharedImporter, Error: func(err error) { terrs = append(terrs, err.Error()) }}
	// Assembly stubs have no bodies; the type checker accepts them.
	pkg, _ := conf.Check(pi.importp, fset, files, info)
	if len(terrs) > 0 {
		fmt.Printf("NOTE type-checking %s reported %d errors (first: %s); instrumentation of this package skipped\n", pi.importp, len(terrs), terrs[0])
		return nil
	}
	sharedImporter.known[pi.importp] = pkg

	for fi, f := range files {
		fn := pi.files[fi]
		src, err := os.ReadFile(fn)
		if err != nil {
			return err
		}
		rel, _ := filepath.Rel(repo, fn)
		ins, err := instrumentFile(fset, f, info, rel)
		if err != nil {
			fmt.Printf("NOTE %s left uninstrumented: %v\n", rel, err)
			continue
		}
		if len(ins) == 0 {
			continue
		}
		// add the import right after the package clause
		tf := fset.File(f.Pos())
		pkgEnd := tf.Offset(f.Name.End())
		ins = append(ins, insertion{off: pkgEnd, other: farAway, seq: -1, text: "; import verifct \"" + ctImport + "\""})
		sort.SliceStable(ins, func(i, j int) bool {
			a, b := ins[i], ins[j]
			if a.off != b.off {
				return a.off < b.off
			}
			if a.close != b.close {
				return a.close // closes first
			}
			if a.close {
				if a.other != b.other {
					return a.other > b.other // inner (later start) closes first
				}
				return a.seq > b.seq
			}
			if a.other != b.other {
				return a.other > b.other // outer (later end) opens first
			}
			return a.seq < b.seq
		})
		var sb strings.Builder
		last := 0
		for _, in := range ins {
			sb.Write(src[last:in.off])
			sb.WriteString(in.text)
			last = in.off
		}
		sb.Write(src[last:])
		dst := filepath.Join(out, "instr", rel)
		os.MkdirAll(filepath.Dir(dst), 0o755)
		if err := os.WriteFile(dst, []byte(sb.String()), 0o644); err != nil {
			return err
		}
		replace[fn] = dst
	}
	return nil
}

type instrumenter struct {
	fset  *token.FileSet
	tf    *token.File
	info  *types.Info
	file  string
	ins   []insertion
	seq   int
	funcs []*funcCtx // stack

	litIsOnce map[*ast.FuncLit]bool
}

type funcCtx struct {
	name string
	ord  map[string]int
}

func (it *instrumenter) cur() *funcCtx { return it.funcs[len(it.funcs)-1] }

func (it *instrumenter) off(p token.Pos) int { return it.tf.Offset(p) }

func (it *instrumenter) wrap(e ast.Expr, depth int, prefix string) {
	it.seq++
	it.ins = append(it.ins, insertion{off: it.off(e.Pos()), other: it.off(e.End()), seq: it.seq, text: prefix})
	it.ins = append(it.ins, insertion{off: it.off(e.End()), close: true, other: it.off(e.Pos()), seq: it.seq, text: ")"})
}

func (it *instrumenter) insertAt(p token.Pos, depth int, text string) {
	it.seq++
	it.ins = append(it.ins, insertion{off: it.off(p), other: farAway, seq: it.seq, text: text})
}

func (it *instrumenter) site(kind string, p token.Pos) *site {
	fc := it.cur()
	return newSite(it.file, fc.name, kind, fc.ord, it.fset.Position(p).Line)
}

func (it *instrumenter) isConst(e ast.Expr) bool {
	tv, ok := it.info.Types[e]
	return ok && tv.Value != nil
}

func (it *instrumenter) typeOf(e ast.Expr) types.Type {
	if tv, ok := it.info.Types[e]; ok {
		return tv.Type
	}
	return nil
}

func isInteger(t types.Type) bool {
	if t == nil {
		return false
	}
	b, ok := t.Underlying().(*types.Basic)
	return ok && b.Info()&types.IsInteger != 0 && b.Info()&types.IsUntyped == 0
}

func isBoolT(t types.Type) bool {
	if t == nil {
		return false
	}
	b, ok := t.Underlying().(*types.Basic)
	return ok && b.Info()&types.IsBoolean != 0
}

func isComposite(t types.Type) bool {
	if t == nil {
		return false
	}
	switch u := t.Underlying().(type) {
	case *types.Struct, *types.Array:
		return true
	case *types.Basic:
		return u.Info()&types.IsString != 0
	case *types.Interface:
		return true
	}
	return false
}

func indexable(t types.Type) bool {
	if t == nil {
		return false
	}
	switch u := t.Underlying().(type) {
	case *types.Slice, *types.Array:
		return true
	case *types.Basic:
		return u.Info()&types.IsString != 0
	case *types.Pointer:
		_, ok := u.Elem().Underlying().(*types.Array)
		return ok
	}
	return false
}

// callee resolves the package path and name of a call's target, if it is a function or
// method declared in another package.
func (it *instrumenter) callee(call *ast.CallExpr) (pkgPath, name string, ok bool) {
	switch f := call.Fun.(type) {
	case *ast.SelectorExpr:
		if sel, ok := it.info.Selections[f]; ok {
			if fn, ok := sel.Obj().(*types.Func); ok && fn.Pkg() != nil {
				return fn.Pkg().Path(), fn.Name(), true
			}
			return "", "", false
		}
		if obj, ok := it.info.Uses[f.Sel]; ok {
			if fn, ok := obj.(*types.Func); ok && fn.Pkg() != nil {
				return fn.Pkg().Path(), fn.Name(), true
			}
		}
	case *ast.Ident:
		if obj, ok := it.info.Uses[f]; ok {
			if fn, ok := obj.(*types.Func); ok && fn.Pkg() != nil {
				return fn.Pkg().Path(), fn.Name(), true
			}
		}
	}
	return "", "", false
}

func instrumentFile(fset *token.FileSet, f *ast.File, info *types.Info, rel string) ([]insertion, error) {
	it := &instrumenter{fset: fset, tf: fset.File(f.Pos()), info: info, file: rel}
	pkgPath := ""
	if f.Name != nil {
		if obj := info.Defs[f.Name]; obj != nil && obj.Pkg() != nil {
			pkgPath = obj.Pkg().Path()
		}
	}
	_ = pkgPath
	for _, d := range f.Decls {
		fd, ok := d.(*ast.FuncDecl)
		if !ok || fd.Body == nil {
			continue
		}
		name := fd.Name.Name
		if fd.Recv != nil && len(fd.Recv.List) == 1 {
			name = "(" + types.ExprString(fd.Recv.List[0].Type) + ")." + name
		}
		it.funcs = append(it.funcs, &funcCtx{name: name, ord: map[string]int{}})
		s := it.site("entry", fd.Pos())
		hasOnce := it.containsOnceDo(fd.Body)
		text := fmt.Sprintf(" verifct.F(%d);", s.ID)
		if hasOnce {
			s.OnceHost = true
			text += fmt.Sprintf(" verifct.Enter(%d); defer verifct.Leave(%d);", s.ID, s.ID)
		}
		it.insertAt(fd.Body.Lbrace+1, 0, text)
		it.walkBlock(fd.Body, 1)
		it.funcs = it.funcs[:len(it.funcs)-1]
	}
	// Package-level var initialisers may contain func literals / calls; they run once at
	// init time on public constants and are not instrumented.
	return it.ins, nil
}

func (it *instrumenter) containsOnceDo(n ast.Node) bool {
	found := false
	ast.Inspect(n, func(x ast.Node) bool {
		if _, ok := x.(*ast.FuncLit); ok && x != n {
			// still look inside: Do calls in nested literals belong to them; but keep simple
		}
		if c, ok := x.(*ast.CallExpr); ok {
			if p, nm, ok := it.callee(c); ok && p == "sync" && nm == "Do" {
				found = true
			}
		}
		return !found
	})
	return found
}

func (it *instrumenter) walkBlock(n ast.Node, depth int) {
	if n == nil {
		return
	}
	ast.Inspect(n, func(x ast.Node) bool {
		if x == nil {
			return false
		}
		return it.visit(x, depth)
	})
}

// visit instruments one node; returning false stops ast.Inspect from descending (because the
// children were handled explicitly).
func (it *instrumenter) visit(x ast.Node, depth int) bool {
	switch n := x.(type) {
	case *ast.FuncLit:
		fc := it.cur()
		fc.ord["lit"]++
		name := fmt.Sprintf("%s.func%d", fc.name, fc.ord["lit"])
		it.funcs = append(it.funcs, &funcCtx{name: name, ord: map[string]int{}})
		s := it.site("entry", n.Pos())
		if it.litIsOnce[n] {
			s.OnceLit = true
		}
		it.insertAt(n.Body.Lbrace+1, depth, fmt.Sprintf(" verifct.F(%d);", s.ID))
		it.walkBlock(n.Body, depth+1)
		it.funcs = it.funcs[:len(it.funcs)-1]
		return false
	case *ast.IfStmt:
		if n.Cond != nil && !it.isConst(n.Cond) {
			s := it.site("if", n.Cond.Pos())
			it.wrap(n.Cond, depth, fmt.Sprintf("verifct.B(%d, ", s.ID))
		}
		return true
	case *ast.ForStmt:
		if n.Cond != nil && !it.isConst(n.Cond) {
			s := it.site("for", n.Cond.Pos())
			it.wrap(n.Cond, depth, fmt.Sprintf("verifct.B(%d, ", s.ID))
		}
		return true
	case *ast.RangeStmt:
		s := it.site("range", n.Pos())
		it.insertAt(n.Body.Lbrace+1, depth, fmt.Sprintf(" verifct.P(%d);", s.ID))
		return true
	case *ast.SwitchStmt:
		for _, cc := range n.Body.List {
			c := cc.(*ast.CaseClause)
			s := it.site("case", c.Pos())
			it.insertAt(c.Colon+1, depth, fmt.Sprintf(" verifct.P(%d);", s.ID))
			if n.Tag == nil {
				for _, e := range c.List {
					if !it.isConst(e) && isBoolT(it.typeOf(e)) {
						s := it.site("casecond", e.Pos())
						it.wrap(e, depth, fmt.Sprintf("verifct.B(%d, ", s.ID))
					}
				}
			}
		}
		return true
	case *ast.TypeSwitchStmt:
		for _, cc := range n.Body.List {
			c := cc.(*ast.CaseClause)
			s := it.site("case", c.Pos())
			it.insertAt(c.Colon+1, depth, fmt.Sprintf(" verifct.P(%d);", s.ID))
		}
		return true
	case *ast.BinaryExpr:
		switch n.Op {
		case token.LAND, token.LOR:
			if !it.isConst(n.X) {
				s := it.site("shortcircuit", n.X.Pos())
				it.wrap(n.X, depth, fmt.Sprintf("verifct.B(%d, ", s.ID))
			}
		case token.EQL, token.NEQ:
			if !it.isConst(n) && (isComposite(it.typeOf(n.X)) || isComposite(it.typeOf(n.Y))) {
				// comparison against nil interface/pointer is not composite; strings, structs, arrays are
				s := it.site("cmp", n.Pos())
				it.wrap(n, depth, fmt.Sprintf("verifct.B(%d, ", s.ID))
			}
		case token.SHL, token.SHR:
			if !it.isConst(n.Y) && isInteger(it.typeOf(n.Y)) {
				s := it.site("shift", n.Y.Pos())
				it.wrap(n.Y, depth, fmt.Sprintf("verifct.S(%d, ", s.ID))
			}
		case token.QUO, token.REM:
			if !it.isConst(n.Y) && isInteger(it.typeOf(n.Y)) && isInteger(it.typeOf(n.X)) && !it.isConst(n.X) {
				s := it.site("div", n.Pos())
				it.wrap(n.X, depth, fmt.Sprintf("verifct.S(%d, ", s.ID))
				it.wrap(n.Y, depth, fmt.Sprintf("verifct.S(%d, ", s.ID))
			} else if !it.isConst(n.Y) && isInteger(it.typeOf(n.Y)) {
				s := it.site("div", n.Pos())
				it.wrap(n.Y, depth, fmt.Sprintf("verifct.S(%d, ", s.ID))
			}
		}
		return true
	case *ast.AssignStmt:
		if (n.Tok == token.SHL_ASSIGN || n.Tok == token.SHR_ASSIGN) && len(n.Rhs) == 1 && !it.isConst(n.Rhs[0]) && isInteger(it.typeOf(n.Rhs[0])) {
			s := it.site("shift", n.Rhs[0].Pos())
			it.wrap(n.Rhs[0], depth, fmt.Sprintf("verifct.S(%d, ", s.ID))
		}
		if (n.Tok == token.QUO_ASSIGN || n.Tok == token.REM_ASSIGN) && len(n.Rhs) == 1 && !it.isConst(n.Rhs[0]) && isInteger(it.typeOf(n.Rhs[0])) {
			s := it.site("div", n.Rhs[0].Pos())
			it.wrap(n.Rhs[0], depth, fmt.Sprintf("verifct.S(%d, ", s.ID))
		}
		return true
	case *ast.IndexExpr:
		if indexable(it.typeOf(n.X)) && !it.isConst(n.Index) && isInteger(it.typeOf(n.Index)) {
			s := it.site("index", n.Index.Pos())
			it.wrap(n.Index, depth, fmt.Sprintf("verifct.I(%d, ", s.ID))
		}
		return true
	case *ast.SliceExpr:
		if indexable(it.typeOf(n.X)) {
			for _, b := range []ast.Expr{n.Low, n.High, n.Max} {
				if b != nil && !it.isConst(b) && isInteger(it.typeOf(b)) {
					s := it.site("slicebound", b.Pos())
					it.wrap(b, depth, fmt.Sprintf("verifct.I(%d, ", s.ID))
				}
			}
		}
		return true
	case *ast.CallExpr:
		// conversions
		if tv, ok := it.info.Types[n.Fun]; ok && tv.IsType() {
			return true
		}
		// builtins
		if id, ok := n.Fun.(*ast.Ident); ok {
			if _, isB := it.info.Uses[id].(*types.Builtin); isB {
				if id.Name == "make" {
					for _, a := range n.Args[1:] {
						if !it.isConst(a) && isInteger(it.typeOf(a)) {
							s := it.site("makelen", a.Pos())
							it.wrap(a, depth, fmt.Sprintf("verifct.I(%d, ", s.ID))
						}
					}
				}
				return true
			}
		}
		if p, nm, ok := it.callee(n); ok {
			if p == "sync" && nm == "Do" && len(n.Args) == 1 {
				if fl, ok := n.Args[0].(*ast.FuncLit); ok {
					if it.litIsOnce == nil {
						it.litIsOnce = map[*ast.FuncLit]bool{}
					}
					it.litIsOnce[fl] = true
				}
			}
			own := strings.HasPrefix(p, "filippo.io/edwards25519") || p == it.ownPkg()
			if !own && !calleeAllowed(p, nm) && !n.Ellipsis.IsValid() {
				for _, a := range n.Args {
					if it.isConst(a) {
						continue
					}
					t := it.typeOf(a)
					if t == nil {
						continue
					}
					var w string
					switch u := t.Underlying().(type) {
					case *types.Slice:
						if b, ok := u.Elem().Underlying().(*types.Basic); ok && b.Kind() == types.Uint8 && types.Identical(t, types.NewSlice(types.Typ[types.Uint8])) {
							w = "AB"
						}
					case *types.Basic:
						switch {
						case u.Info()&types.IsString != 0 && u.Info()&types.IsUntyped == 0 && types.Identical(t, types.Typ[types.String]):
							w = "AS"
						case u.Info()&types.IsInteger != 0 && u.Info()&types.IsUntyped == 0:
							w = "AI"
						case u.Info()&types.IsBoolean != 0 && u.Info()&types.IsUntyped == 0 && types.Identical(t, types.Typ[types.Bool]):
							w = "ABool"
						}
					}
					if w != "" {
						s := it.site("arg:"+p+"."+nm, a.Pos())
						it.wrap(a, depth, fmt.Sprintf("verifct.%s(%d, ", w, s.ID))
					}
				}
			}
		}
		return true
	}
	return true
}

func (it *instrumenter) ownPkg() string { return "" }

func genSitesFile() string {
	var b strings.Builder
	b.WriteString("//go:build verif\n\npackage verifct\n\nfunc init() {\n\tInit([]string{\n")
	for _, s := range allSites {
		fmt.Fprintf(&b, "\t\t%q,\n", s.Name)
	}
	b.WriteString("\t}, []string{\n")
	for _, s := range allSites {
		fmt.Fprintf(&b, "\t\t%q,\n", s.Func)
	}
	b.WriteString("\t})\n\tOnceLit = []uint32{")
	for _, s := range allSites {
		if s.OnceLit {
			fmt.Fprintf(&b, "%d, ", s.ID)
		}
	}
	b.WriteString("}\n\tOnceHost = []uint32{")
	for _, s := range allSites {
		if s.OnceHost {
			fmt.Fprintf(&b, "%d, ", s.ID)
		}
	}
	b.WriteString("}\n}\n\n// OnceLit / OnceHost list the entry sites of func literals passed to sync.Once.Do and of\n// the functions containing such calls.\nvar OnceLit, OnceHost []uint32\n")
	return b.String()
}

func writeSiteTable(path string) {
	b, _ := json.MarshalIndent(allSites, "", " ")
	os.WriteFile(path, b, 0o644)
	kinds := map[string]int{}
	for _, s := range allSites {
		k := s.Kind
		if strings.HasPrefix(k, "arg:") {
			k = "arg"
		}
		kinds[k]++
	}
	fmt.Printf("instrumented %d sites: %v\n", len(allSites), kinds)
}
