// Package ctops is the table of constant-time entry points driven by the leakage monitors,
// without any generator: only the calls. It is deliberately tiny (no maps, no math/big, no
// fmt) because cmd/ctwork links it for the machine-level tracer, where every early
// allocation whose layout depends on the runtime's random hash seed would make heap
// addresses differ from run to run.
package ctops

import (
	"unsafe"

	"filippo.io/edwards25519"
	"filippo.io/edwards25519/field"
)

// Inputs is one secret assignment for an entry point.
type Inputs struct {
	Pts   []*edwards25519.Point
	Scs   []*edwards25519.Scalar
	Fes   []*field.Element
	Bytes []byte
	Cond  int
	U32   uint32
	Class string

	// receivers / scratch: fresh objects for the source-level monitor, package-level slots
	// (fixed addresses) for the machine-level one
	OutP       *edwards25519.Point
	OutS       *edwards25519.Scalar
	OutE, OutF *field.Element
}

// EnsureOuts gives the assignment fresh receivers if none were provided.
func (in *Inputs) EnsureOuts() {
	if in.OutP == nil {
		in.OutP = new(edwards25519.Point)
	}
	if in.OutS == nil {
		in.OutS = new(edwards25519.Scalar)
	}
	if in.OutE == nil {
		in.OutE = new(field.Element)
	}
	if in.OutF == nil {
		in.OutF = new(field.Element)
	}
}

// Op is one entry point (a distinct public shape gets a distinct name).
type Op struct {
	Name string
	Run  func(in *Inputs)
}

type (
	P = edwards25519.Point
	S = edwards25519.Scalar
	E = field.Element
)

// Ops returns the table. Order is part of the image format.
func Ops() []Op { return opsTable }

// opsTable is a package-level literal of capture-free functions: static data, no heap.
var opsTable = []Op{
	{"Point.ScalarMult", func(in *Inputs) { in.OutP.ScalarMult(in.Scs[0], in.Pts[0]) }},
	{"Point.ScalarBaseMult", func(in *Inputs) { in.OutP.ScalarBaseMult(in.Scs[0]) }},
	{"Point.MultiScalarMult/n=0", func(in *Inputs) { in.OutP.MultiScalarMult(in.Scs, in.Pts) }},
	{"Point.MultiScalarMult/n=1", func(in *Inputs) { in.OutP.MultiScalarMult(in.Scs, in.Pts) }},
	{"Point.MultiScalarMult/n=2", func(in *Inputs) { in.OutP.MultiScalarMult(in.Scs, in.Pts) }},
	{"Point.MultiScalarMult/n=3", func(in *Inputs) { in.OutP.MultiScalarMult(in.Scs, in.Pts) }},
	{"Point.Add", func(in *Inputs) { in.OutP.Add(in.Pts[0], in.Pts[1]) }},
	{"Point.Subtract", func(in *Inputs) { in.OutP.Subtract(in.Pts[0], in.Pts[1]) }},
	{"Point.Negate", func(in *Inputs) { in.OutP.Negate(in.Pts[0]) }},
	{"Point.MultByCofactor", func(in *Inputs) { in.OutP.MultByCofactor(in.Pts[0]) }},
	{"Point.Equal", func(in *Inputs) { in.Pts[0].Equal(in.Pts[1]) }},
	{"Point.Bytes", func(in *Inputs) { in.Pts[0].Bytes() }},
	{"Point.BytesMontgomery", func(in *Inputs) { in.Pts[0].BytesMontgomery() }},
	{"Point.ExtendedCoordinates", func(in *Inputs) { in.Pts[0].ExtendedCoordinates() }},
	{"Point.Set", func(in *Inputs) { in.OutP.Set(in.Pts[0]) }},
	{"Point.SetBytes(valid)", func(in *Inputs) { in.OutP.SetBytes(in.Bytes) }},
	{"Point.SetExtendedCoordinates(valid)", func(in *Inputs) {
		in.OutP.SetExtendedCoordinates(in.Fes[0], in.Fes[1], in.Fes[2], in.Fes[3])
	}},
	{"Scalar.Add", func(in *Inputs) { in.OutS.Add(in.Scs[0], in.Scs[1]) }},
	{"Scalar.Subtract", func(in *Inputs) { in.OutS.Subtract(in.Scs[0], in.Scs[1]) }},
	{"Scalar.Multiply", func(in *Inputs) { in.OutS.Multiply(in.Scs[0], in.Scs[1]) }},
	{"Scalar.MultiplyAdd", func(in *Inputs) { in.OutS.MultiplyAdd(in.Scs[0], in.Scs[1], in.Scs[2]) }},
	{"Scalar.Negate", func(in *Inputs) { in.OutS.Negate(in.Scs[0]) }},
	{"Scalar.Invert", func(in *Inputs) { in.OutS.Invert(in.Scs[0]) }},
	{"Scalar.Equal", func(in *Inputs) { in.Scs[0].Equal(in.Scs[1]) }},
	{"Scalar.Bytes", func(in *Inputs) { in.Scs[0].Bytes() }},
	{"Scalar.Set", func(in *Inputs) { in.OutS.Set(in.Scs[0]) }},
	{"Scalar.SetCanonicalBytes(valid)", func(in *Inputs) { in.OutS.SetCanonicalBytes(in.Bytes) }},
	{"Scalar.SetUniformBytes", func(in *Inputs) { in.OutS.SetUniformBytes(in.Bytes) }},
	{"Scalar.SetBytesWithClamping", func(in *Inputs) { in.OutS.SetBytesWithClamping(in.Bytes) }},
	{"Element.Add", func(in *Inputs) { in.OutE.Add(in.Fes[0], in.Fes[1]) }},
	{"Element.Subtract", func(in *Inputs) { in.OutE.Subtract(in.Fes[0], in.Fes[1]) }},
	{"Element.Negate", func(in *Inputs) { in.OutE.Negate(in.Fes[0]) }},
	{"Element.Multiply", func(in *Inputs) { in.OutE.Multiply(in.Fes[0], in.Fes[1]) }},
	{"Element.Square", func(in *Inputs) { in.OutE.Square(in.Fes[0]) }},
	{"Element.Mult32", func(in *Inputs) { in.OutE.Mult32(in.Fes[0], in.U32) }},
	{"Element.Invert", func(in *Inputs) { in.OutE.Invert(in.Fes[0]) }},
	{"Element.Pow22523", func(in *Inputs) { in.OutE.Pow22523(in.Fes[0]) }},
	{"Element.Absolute", func(in *Inputs) { in.OutE.Absolute(in.Fes[0]) }},
	{"Element.SqrtRatio", func(in *Inputs) { in.OutE.SqrtRatio(in.Fes[0], in.Fes[1]) }},
	{"Element.Equal", func(in *Inputs) { in.Fes[0].Equal(in.Fes[1]) }},
	{"Element.IsNegative", func(in *Inputs) { in.Fes[0].IsNegative() }},
	{"Element.Bytes", func(in *Inputs) { in.Fes[0].Bytes() }},
	{"Element.Select", func(in *Inputs) { in.OutE.Select(in.Fes[0], in.Fes[1], in.Cond) }},
	{"Element.Swap", func(in *Inputs) {
		a, b := in.OutE.Set(in.Fes[0]), in.OutF.Set(in.Fes[1])
		a.Swap(b, in.Cond)
	}},
	{"Element.Set", func(in *Inputs) { in.OutE.Set(in.Fes[0]) }},
	{"Element.SetBytes", func(in *Inputs) { in.OutE.SetBytes(in.Bytes) }},
	{"Element.SetWideBytes", func(in *Inputs) { in.OutE.SetWideBytes(in.Bytes) }},
}

// ---- raw images ----

// sizes follow the library's current layout (compile-time constants), so an image written by
// the worker and read by the subject built from the same tree always agree
const (
	ptSize = int(unsafe.Sizeof(P{}))
	scSize = int(unsafe.Sizeof(S{}))
	feSize = int(unsafe.Sizeof(E{}))
)

// LayoutOK guards only against value types that could not be imaged as plain memory.
func LayoutOK() bool {
	return ptSize > 0 && scSize > 0 && feSize > 0
}

// Slots are fixed-address operand and receiver locations.
type Slots struct {
	P          [4]P
	S          [4]S
	E          [4]E
	B          [64]byte
	OutP       P
	OutS       S
	OutE, OutF E
	in         Inputs
	pp         [4]*P
	ss         [4]*S
	ee         [4]*E
}

// Image serialises an assignment as raw memory images (fixed size per entry point).
func (in *Inputs) Image() []byte {
	out := []byte{byte(len(in.Pts)), byte(len(in.Scs)), byte(len(in.Fes)), byte(len(in.Bytes)), byte(in.Cond), byte(in.U32), byte(in.U32 >> 8), byte(in.U32 >> 16), byte(in.U32 >> 24)}
	for _, p := range in.Pts {
		out = append(out, (*[ptSize]byte)(unsafe.Pointer(p))[:]...)
	}
	for _, s := range in.Scs {
		out = append(out, (*[scSize]byte)(unsafe.Pointer(s))[:]...)
	}
	for _, e := range in.Fes {
		out = append(out, (*[feSize]byte)(unsafe.Pointer(e))[:]...)
	}
	return append(out, in.Bytes...)
}

// LoadImage copies an image into the slots and returns an assignment that lives in the
// slots too (no heap allocation), plus the number of bytes consumed.
func LoadImage(b []byte, sl *Slots) (*Inputs, int) {
	np, ns, ne, nb := int(b[0]), int(b[1]), int(b[2]), int(b[3])
	in := &sl.in
	in.Cond = int(b[4])
	in.U32 = uint32(b[5]) | uint32(b[6])<<8 | uint32(b[7])<<16 | uint32(b[8])<<24
	o := 9
	for i := 0; i < np; i++ {
		copy((*[ptSize]byte)(unsafe.Pointer(&sl.P[i]))[:], b[o:o+ptSize])
		sl.pp[i] = &sl.P[i]
		o += ptSize
	}
	for i := 0; i < ns; i++ {
		copy((*[scSize]byte)(unsafe.Pointer(&sl.S[i]))[:], b[o:o+scSize])
		sl.ss[i] = &sl.S[i]
		o += scSize
	}
	for i := 0; i < ne; i++ {
		copy((*[feSize]byte)(unsafe.Pointer(&sl.E[i]))[:], b[o:o+feSize])
		sl.ee[i] = &sl.E[i]
		o += feSize
	}
	copy(sl.B[:], b[o:o+nb])
	o += nb
	in.Pts, in.Scs, in.Fes, in.Bytes = sl.pp[:np:np], sl.ss[:ns:ns], sl.ee[:ne:ne], sl.B[:nb:nb]
	in.OutP, in.OutS, in.OutE, in.OutF = &sl.OutP, &sl.OutS, &sl.OutE, &sl.OutF
	return in, o
}
