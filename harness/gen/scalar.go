package gen

import (
	"fmt"
	"math/big"

	"filippo.io/edwards25519"
	"verifharness/ref"
)

// SC is a generated scalar: the integer in [0,l) and the class it was drawn from.
type SC struct {
	K     *big.Int
	Class string
}

var scalarClasses []SC

func addSC(k *big.Int, class string) {
	scalarClasses = append(scalarClasses, SC{ref.Sc(k), class})
}

func pow2(i int) *big.Int { return new(big.Int).Lsh(big.NewInt(1), uint(i)) }

func repByte(b byte, n int) *big.Int {
	x := make([]byte, n)
	for i := range x {
		x[i] = b
	}
	return new(big.Int).SetBytes(x)
}

func init() {
	L := ref.L
	one := big.NewInt(1)
	addSC(big.NewInt(0), "zero")
	addSC(big.NewInt(1), "one")
	addSC(big.NewInt(2), "two")
	addSC(big.NewInt(8), "eight")
	addSC(big.NewInt(15), "small")
	addSC(big.NewInt(16), "small")
	addSC(big.NewInt(17), "small")
	addSC(new(big.Int).Sub(L, one), "l-1")
	addSC(new(big.Int).Sub(L, big.NewInt(2)), "l-2")
	addSC(new(big.Int).Sub(L, big.NewInt(8)), "l-8")
	addSC(new(big.Int).Rsh(new(big.Int).Add(L, one), 1), "(l+1)/2")
	addSC(new(big.Int).Rsh(new(big.Int).Sub(L, one), 1), "(l-1)/2")
	for i := 0; i <= 252; i++ {
		addSC(pow2(i), "2^i")
		if i > 1 {
			addSC(new(big.Int).Sub(pow2(i), one), "2^i-1")
			addSC(new(big.Int).Add(pow2(i), one), "2^i+1")
		}
	}
	// radix-16 digit extremes: 8*16^i, nibble runs of 7/8, byte patterns
	for i := 0; i < 63; i++ {
		addSC(new(big.Int).Lsh(big.NewInt(8), uint(4*i)), "8*16^i")
		addSC(new(big.Int).Lsh(big.NewInt(7), uint(4*i)), "7*16^i")
		addSC(new(big.Int).Lsh(big.NewInt(9), uint(4*i)), "9*16^i")
		addSC(new(big.Int).Lsh(big.NewInt(0x78), uint(4*i)), "78*16^i")
		addSC(new(big.Int).Lsh(big.NewInt(0x88), uint(4*i)), "88*16^i")
	}
	for _, b := range []byte{0x88, 0x77, 0x78, 0x87, 0xff, 0x0f, 0xf0, 0x55, 0xaa, 0x33, 0xcc, 0x11, 0x99, 0x80, 0x08, 0x01} {
		for _, n := range []int{31, 32} {
			x := repByte(b, n)
			addSC(x, fmt.Sprintf("rep-%02x", b))
			// truncated below 2^252 so that it is used unreduced
			addSC(new(big.Int).And(x, new(big.Int).Sub(pow2(252), one)), fmt.Sprintf("rep-%02x-252", b))
		}
	}
	// NAF window boundaries: runs of ones straddling bit 64k
	for k := 1; k <= 3; k++ {
		for w := 1; w <= 9; w++ {
			for off := -9; off <= 1; off++ {
				s := 64*k + off
				if s < 0 {
					continue
				}
				run := new(big.Int).Sub(pow2(w), one)
				addSC(new(big.Int).Lsh(run, uint(s)), "ones-run@64k")
			}
		}
	}
	// near 2^252 and near l
	for d := int64(-3); d <= 3; d++ {
		addSC(new(big.Int).Add(pow2(252), big.NewInt(d)), "near-2^252")
	}
}

// ScalarClasses returns the fixed structured scalar list.
func ScalarClasses() []SC { return scalarClasses }

// Scalar draws from a mixture: structured classes, sparse, dense, low/high halves, uniform.
func (r *Rand) Scalar() SC {
	switch r.Intn(13) {
	case 12: // structured INTERNAL representation: the Montgomery form (k*2^256 mod l) is a
		// boundary value, a word pattern or a small number
		var m *big.Int
		switch r.Intn(3) {
		case 0:
			m = scalarClasses[r.Intn(len(scalarClasses))].K
		case 1:
			m = ref.Sc(r.wordPattern(wordPats64, 64))
		default:
			m = big.NewInt(int64(r.Intn(1 << 16)))
		}
		return SC{ref.SMul(m, montRinvGen), "montgomery-structured"}
	case 10: // every 64-bit word from a short list of carry-chain boundary patterns
		return SC{ref.Sc(r.wordPattern(wordPats64, 64)), "word-patterns-64"}
	case 11: // the same at 32-bit granularity
		return SC{ref.Sc(r.wordPattern(wordPats32, 32)), "word-patterns-32"}
	case 0, 1, 2:
		return scalarClasses[r.Intn(len(scalarClasses))]
	case 3: // sparse
		x := new(big.Int)
		n := 1 + r.Intn(6)
		for i := 0; i < n; i++ {
			x.SetBit(x, r.Intn(253), 1)
		}
		return SC{ref.Sc(x), "sparse"}
	case 4: // random nibbles from {0,7,8,9,15}: carry chains in radix 16
		nib := []byte{0, 7, 8, 9, 15, 1}
		b := make([]byte, 32)
		for i := range b {
			b[i] = nib[r.Intn(len(nib))] | nib[r.Intn(len(nib))]<<4
		}
		b[31] &= 0x0f
		return SC{ref.Sc(ref.LEToInt(b)), "nibble-extremes"}
	case 5: // short
		return SC{r.BigBits(1 + r.Intn(128)), "short"}
	case 6: // class +- small
		c := scalarClasses[r.Intn(len(scalarClasses))]
		d := big.NewInt(int64(r.Intn(33) - 16))
		return SC{ref.Sc(new(big.Int).Add(c.K, d)), c.Class + "+-d"}
	default:
		return SC{r.BigBelow(ref.L), "uniform"}
	}
}

// UniformScalar draws uniformly from [0,l).
func (r *Rand) UniformScalar() SC { return SC{r.BigBelow(ref.L), "uniform"} }

// LibScalar builds a library Scalar for k in [0,l) through SetCanonicalBytes.
func LibScalar(k *big.Int) *edwards25519.Scalar {
	b := ref.IntToLE32(k)
	s, err := new(edwards25519.Scalar).SetCanonicalBytes(b[:])
	if err != nil {
		panic("gen: LibScalar: " + err.Error())
	}
	return s
}

// LibScalarAlt builds the same scalar through a different public route (wide reduction of
// k + j*l, or arithmetic), chosen by r. The value is the same; the point is provenance.
func (r *Rand) LibScalarAlt(k *big.Int) (*edwards25519.Scalar, string) {
	switch r.Intn(4) {
	case 0:
		return LibScalar(k), "canonical"
	case 1:
		// wide: k + j*l < 2^512
		j := r.BigBits(250)
		x := new(big.Int).Add(k, new(big.Int).Mul(j, ref.L))
		s, err := new(edwards25519.Scalar).SetUniformBytes(ref.IntToLE(x, 64))
		if err != nil {
			panic(err)
		}
		return s, "wide"
	case 2:
		a := r.BigBelow(ref.L)
		b := ref.SSub(k, a)
		return new(edwards25519.Scalar).Add(LibScalar(a), LibScalar(b)), "a+b"
	default:
		a := r.BigBelow(ref.L)
		if a.Sign() == 0 {
			a.SetInt64(1)
		}
		b := ref.SMul(k, ref.SInv(a))
		return new(edwards25519.Scalar).Multiply(LibScalar(a), LibScalar(b)), "a*b"
	}
}

var wordPats64 = []uint64{0, 1, 0x7777777777777777, 0x7777777777777778, 0x8888888888888888, 0x8888888888888887, 0xffffffffffffffff, 0xfffffffffffffff8, 0x8000000000000000, 0x7fffffffffffffff, 0x0f0f0f0f0f0f0f0f, 0xf0f0f0f0f0f0f0f0}
var wordPats32 = []uint64{0, 1, 0x77777777, 0x77777778, 0x88888888, 0x88888887, 0xffffffff, 0xfffffff8, 0x80000000, 0x7fffffff}

// wordPattern assembles a 256-bit integer whose words (of the given width) are drawn from a
// list of boundary patterns, one word possibly random: carries between machine words in
// recodings and reductions are exercised at every word boundary. The top is cut to 252 bits.
func (r *Rand) wordPattern(pats []uint64, width int) *big.Int {
	x := new(big.Int)
	n := 256 / width
	rnd := r.Intn(2 * n) // index of a random word, or none
	for i := n - 1; i >= 0; i-- {
		w := pats[r.Intn(len(pats))]
		if i == rnd {
			w = r.U64()
			if width == 32 {
				w &= 0xffffffff
			}
		}
		x.Lsh(x, uint(width))
		x.Add(x, new(big.Int).SetUint64(w))
	}
	if r.Bool() {
		x.And(x, new(big.Int).Sub(pow2(252), big.NewInt(1)))
	}
	return x
}

var montRinvGen = new(big.Int).ModInverse(new(big.Int).Lsh(big.NewInt(1), 256), ref.L)
