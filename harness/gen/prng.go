// Package gen holds the seeded generators and representation builders. Everything is a
// deterministic function of (seed, stream ids); nothing reads a clock.
package gen

import (
	"math/big"
)

// Rand is xoshiro256** seeded through splitmix64 from (seed, stream...).
type Rand struct{ s [4]uint64 }

func splitmix(x *uint64) uint64 {
	*x += 0x9e3779b97f4a7c15
	z := *x
	z = (z ^ (z >> 30)) * 0xbf58476d1ce4e5b9
	z = (z ^ (z >> 27)) * 0x94d049bb133111eb
	return z ^ (z >> 31)
}

// New derives an independent generator from a seed and any number of stream ids.
func New(seed uint64, stream ...uint64) *Rand {
	x := seed
	h := splitmix(&x)
	for _, s := range stream {
		x = h ^ (s * 0xd6e8feb86659fd93)
		h = splitmix(&x) ^ splitmix(&x)
	}
	x = h
	r := &Rand{}
	for i := range r.s {
		r.s[i] = splitmix(&x)
	}
	return r
}

func rotl(x uint64, k uint) uint64 { return (x << k) | (x >> (64 - k)) }

func (r *Rand) U64() uint64 {
	res := rotl(r.s[1]*5, 7) * 9
	t := r.s[1] << 17
	r.s[2] ^= r.s[0]
	r.s[3] ^= r.s[1]
	r.s[1] ^= r.s[2]
	r.s[0] ^= r.s[3]
	r.s[2] ^= t
	r.s[3] = rotl(r.s[3], 45)
	return res
}

func (r *Rand) Intn(n int) int {
	if n <= 0 {
		panic("gen: Intn")
	}
	return int(r.U64() % uint64(n))
}

func (r *Rand) Bool() bool { return r.U64()&1 == 1 }

// Chance returns true with probability num/den.
func (r *Rand) Chance(num, den int) bool { return r.Intn(den) < num }

func (r *Rand) Bytes(n int) []byte {
	b := make([]byte, n)
	for i := 0; i < n; i += 8 {
		v := r.U64()
		for j := 0; j < 8 && i+j < n; j++ {
			b[i+j] = byte(v >> (8 * j))
		}
	}
	return b
}

// BigBits returns a uniform integer below 2^bits.
func (r *Rand) BigBits(bits int) *big.Int {
	b := r.Bytes((bits + 7) / 8)
	x := new(big.Int).SetBytes(b)
	if bits%8 != 0 {
		x.Rsh(x, uint(8-bits%8))
	}
	return x
}

// BigBelow returns a uniform integer in [0, n).
func (r *Rand) BigBelow(n *big.Int) *big.Int {
	bits := n.BitLen()
	for {
		x := r.BigBits(bits)
		if x.Cmp(n) < 0 {
			return x
		}
	}
}

// Hash64 is FNV-1a over the parts, used for distinct-case counting.
func Hash64(parts ...[]byte) uint64 {
	h := uint64(14695981039346656037)
	for _, p := range parts {
		for _, b := range p {
			h ^= uint64(b)
			h *= 1099511628211
		}
		h ^= 0xff
		h *= 1099511628211
	}
	return h
}
