package gen

import (
	"fmt"
	"math/big"

	"filippo.io/edwards25519/field"
	"verifharness/ref"
)

// FC is a field value with its class.
type FC struct {
	V     *big.Int
	Class string
}

var fieldClasses []FC

func addFC(v *big.Int, class string) { fieldClasses = append(fieldClasses, FC{ref.Fe(v), class}) }

func init() {
	P := ref.P
	one := big.NewInt(1)
	addFC(big.NewInt(0), "0")
	addFC(big.NewInt(1), "1")
	addFC(big.NewInt(2), "2")
	for i := int64(3); i < 20; i++ {
		addFC(big.NewInt(i), "small<20")
	}
	addFC(new(big.Int).Sub(P, one), "p-1")
	addFC(new(big.Int).Sub(P, big.NewInt(2)), "p-2")
	for i := int64(3); i < 21; i++ {
		addFC(new(big.Int).Sub(P, big.NewInt(i)), "p-small")
	}
	addFC(new(big.Int).Rsh(new(big.Int).Add(P, one), 1), "(p+1)/2")
	addFC(new(big.Int).Rsh(new(big.Int).Sub(P, one), 1), "(p-1)/2")
	addFC(ref.SqrtM1, "i")
	addFC(ref.FNeg(ref.SqrtM1), "-i")
	addFC(ref.D, "d")
	addFC(ref.D2, "2d")
	addFC(ref.FNeg(ref.D), "-d")
	for k := 1; k < 255; k++ {
		addFC(pow2(k), "2^k")
		addFC(new(big.Int).Sub(pow2(k), one), "2^k-1")
		addFC(new(big.Int).Add(pow2(k), one), "2^k+1")
	}
	// limb patterns: all 5^5 combinations of {0,1,2^50,2^51-2,2^51-1} per limb
	pat := []uint64{0, 1, 1 << 50, 1<<51 - 2, 1<<51 - 1}
	for a := 0; a < 3125; a++ {
		x := a
		v := new(big.Int)
		for i := 0; i < 5; i++ {
			l := pat[x%5]
			x /= 5
			v.Add(v, new(big.Int).Lsh(new(big.Int).SetUint64(l), uint(51*i)))
		}
		addFC(v, "limb-pattern")
	}
	// limbs whose low (resp. high) half is empty: comparisons, folds or conversions that look
	// at only part of a limb cannot tell these from zero
	hi := []uint64{0, 1 << 32, 1 << 50, (1<<19 - 1) << 32}
	lo := []uint64{0, 1, 1 << 31, 1<<32 - 1}
	for a := 0; a < 1024; a++ {
		x := a
		vh, vl := new(big.Int), new(big.Int)
		for i := 0; i < 5; i++ {
			vh.Add(vh, new(big.Int).Lsh(new(big.Int).SetUint64(hi[x%4]), uint(51*i)))
			vl.Add(vl, new(big.Int).Lsh(new(big.Int).SetUint64(lo[x%4]), uint(51*i)))
			x /= 4
		}
		addFC(vh, "limb-high-halves")
		addFC(vl, "limb-low-halves")
	}
}

// StructuredDelta draws a value meant to be the DIFFERENCE of two field values that some
// operation has to tell apart: a power of two, a limb pattern, a half-empty limb pattern.
func (r *Rand) StructuredDelta() *big.Int {
	switch r.Intn(3) {
	case 0:
		return pow2(r.Intn(255))
	case 1:
		return fieldClasses[60+r.Intn(len(fieldClasses)-60)].V
	default:
		d := fieldClasses[len(fieldClasses)-1-r.Intn(2048)].V
		if d.Sign() == 0 {
			return big.NewInt(1 << 32)
		}
		return d
	}
}

// FieldClasses returns the fixed structured value list.
func FieldClasses() []FC { return fieldClasses }

// FieldValue draws a field value from a mixture.
func (r *Rand) FieldValue() FC {
	switch r.Intn(8) {
	case 0, 1:
		// weight the small named classes as much as the 3125 patterns
		if r.Bool() {
			return fieldClasses[r.Intn(60)]
		}
		return fieldClasses[r.Intn(len(fieldClasses))]
	case 2:
		x := r.BigBelow(ref.P)
		return FC{ref.FSqr(x), "residue"}
	case 3:
		x := r.BigBelow(ref.P)
		return FC{ref.FMul(big.NewInt(2), ref.FSqr(x)), "non-residue"}
	case 4:
		return FC{r.BigBits(1 + r.Intn(64)), "short"}
	default:
		return FC{r.BigBelow(ref.P), "uniform"}
	}
}

// ---- representation recipes (public API only) ----

func feFromBytes(b []byte) *field.Element {
	e, err := new(field.Element).SetBytes(b)
	if err != nil {
		panic(err)
	}
	return e
}

// Canon builds the canonical representation of v through SetBytes.
func Canon(v *big.Int) *field.Element {
	b := ref.FeBytes(v)
	return feFromBytes(b[:])
}

// PForm is the non-canonical zero obtained by SetBytes(p): limbs (2^51-19, 2^51-1 x4).
func PForm() *field.Element {
	b := ref.IntToLE32(ref.P)
	return feFromBytes(b[:])
}

// NonCanonBytes returns the 32-byte non-canonical encoding v+p if v < 19 (else nil).
func NonCanonBytes(v *big.Int) []byte {
	v = ref.Fe(v)
	if v.Cmp(big.NewInt(19)) >= 0 {
		return nil
	}
	b := ref.IntToLE32(new(big.Int).Add(v, ref.P))
	return b[:]
}

// NRecipes is the number of base recipes understood by Repr.
const NRecipes = 12

// Repr builds a representation of the value v using recipe id rc (0..NRecipes-1); r supplies
// any random parameters. All recipes use the public API only, so every representation
// produced is reachable. The returned string names what was done.
func (r *Rand) Repr(v *big.Int, rc int) (*field.Element, string) {
	v = ref.Fe(v)
	switch rc {
	case 0:
		return Canon(v), "R0:canon"
	case 1: // SetBytes of the non-canonical encoding / with bit 255 set
		if nb := NonCanonBytes(v); nb != nil {
			if r.Bool() {
				nb[31] |= 0x80
			}
			return feFromBytes(nb), "R0:noncanon"
		}
		b := ref.FeBytes(v)
		b[31] |= 0x80
		return feFromBytes(b[:]), "R0:bit255"
	case 2:
		return new(field.Element).Add(Canon(v), PForm()), "R1:+p"
	case 3:
		e := new(field.Element).Add(Canon(v), PForm())
		return e.Add(e, PForm()), "R1:+p+p"
	case 4:
		return new(field.Element).Subtract(Canon(v), new(field.Element)), "R1:-0"
	case 5:
		return new(field.Element).Subtract(Canon(v), PForm()), "R1:-p"
	case 6:
		e := new(field.Element).Negate(Canon(v))
		return e.Negate(e), "R1:negneg"
	case 7: // Mult32 by k of v/k
		k := uint32(r.U64())
		if r.Chance(1, 2) {
			k = 0xffffffff - uint32(r.Intn(1024))
		}
		if k == 0 {
			k = 1
		}
		x := ref.FMul(v, ref.FInv(big.NewInt(int64(k))))
		return new(field.Element).Mult32(Canon(x), k), fmt.Sprintf("R2:mult32(%#x)", k)
	case 8: // Mult32 applied to a non-canonical (+p) input
		k := 0xffffffff - uint32(r.Intn(4096))
		x := ref.FMul(v, ref.FInv(big.NewInt(int64(k))))
		in := new(field.Element).Add(Canon(x), PForm())
		return new(field.Element).Mult32(in, k), fmt.Sprintf("R2:mult32(+p,%#x)", k)
	case 9: // Mult32 twice: the second one acts on un-carried limbs
		k1 := 0xffffffff - uint32(r.Intn(4096))
		k2 := 0xffffffff - uint32(r.Intn(4096))
		kk := new(big.Int).Mul(big.NewInt(int64(k1)), big.NewInt(int64(k2)))
		x := ref.FMul(v, ref.FInv(kk))
		e := new(field.Element).Mult32(Canon(x), k1)
		return e.Mult32(e, k2), fmt.Sprintf("R2:mult32x2(%#x,%#x)", k1, k2)
	case 10: // a+b split with both halves big: Add carries once
		a := r.BigBelow(ref.P)
		b := ref.FSub(v, a)
		ea, _ := r.Repr(a, 7+r.Intn(3))
		eb, _ := r.Repr(b, 7+r.Intn(3))
		return new(field.Element).Add(ea, eb), "R3:add(mult32,mult32)"
	default: // chain of 2..4 value-preserving steps
		e := Canon(v)
		desc := "R3:chain"
		n := 2 + r.Intn(3)
		for i := 0; i < n; i++ {
			var s string
			e, s = r.Perturb(e)
			desc += "," + s
		}
		return e, desc
	}
}

// Perturb applies one value-preserving public operation to e, returning a new element with
// the same value mod p and (usually) different limbs.
func (r *Rand) Perturb(e *field.Element) (*field.Element, string) {
	switch r.Intn(9) {
	case 0:
		return new(field.Element).Add(e, PForm()), "+p"
	case 1:
		return new(field.Element).Subtract(e, PForm()), "-p"
	case 2:
		return new(field.Element).Subtract(e, new(field.Element)), "-0"
	case 3:
		t := new(field.Element).Negate(e)
		return t.Negate(t), "negneg"
	case 4:
		k := 0xffffffff - uint32(r.Intn(1<<16))
		kinv := Canon(ref.FInv(big.NewInt(int64(k))))
		t := new(field.Element).Multiply(e, kinv)
		return t.Mult32(t, k), fmt.Sprintf("*k^-1,mult32(%#x)", k)
	case 5:
		return new(field.Element).Add(e, new(field.Element)), "+0"
	case 6:
		return new(field.Element).Mult32(e, 1), "mult32(1)"
	case 7:
		t := new(field.Element).Select(e, PForm(), 1)
		return t, "select"
	default:
		twoP := new(field.Element).Add(PForm(), PForm())
		return new(field.Element).Subtract(e, twoP), "-2p"
	}
}

// RandRepr picks a recipe at random.
func (r *Rand) RandRepr(v *big.Int) (*field.Element, string) {
	return r.Repr(v, r.Intn(NRecipes))
}

var two51 = new(big.Int).Lsh(big.NewInt(1), 51)

// MaxLimbOperand builds, through SetBytes and one Mult32 only, an element whose limbs are as
// large as Mult32 can make them: for an odd multiplier k near 2^32 the input limbs are chosen
// as l_i = t_i * k^-1 mod 2^51 so that the low parts of l_i*k are t_i (2^51-1-small, or 0 for
// limbs the pattern leaves low) and the high parts (up to ~2^32, and 19x that into limb 0)
// are added on top without carry propagation. pattern bit i set = maximise limb i.
func (r *Rand) MaxLimbOperand(pattern int) (*field.Element, *big.Int, string) {
	k := (0xffffffff - uint32(r.Intn(1<<12))) | 1
	kb := big.NewInt(int64(k))
	kinv := new(big.Int).ModInverse(kb, two51)
	x := new(big.Int)
	for i := 4; i >= 0; i-- {
		t := new(big.Int).Sub(two51, big.NewInt(int64(1+r.Intn(3))))
		if pattern&(1<<i) == 0 {
			t = big.NewInt(int64(r.Intn(4)))
		}
		l := new(big.Int).Mul(t, kinv)
		l.Mod(l, two51)
		x.Lsh(x, 51)
		x.Add(x, l)
	}
	b := ref.IntToLE32(x)
	in := feFromBytes(b[:])
	e := new(field.Element).Mult32(in, k)
	return e, ref.FMul(x, kb), fmt.Sprintf("R2:maxlimb(pattern=%05b,k=%#x)", pattern, k)
}
