package gen

import (
	"fmt"
	"math/big"

	"filippo.io/edwards25519"
	"filippo.io/edwards25519/field"
	"verifharness/ref"
)

// PC is a generated point: the model's affine point, the library value built for it through
// the public API, and a description of how.
type PC struct {
	M     ref.Pt
	P     *edwards25519.Point
	Class string // model class
	Build string // construction route of the library value
}

// ModelPoint draws an affine model point from the whole group of order 8l.
func (r *Rand) ModelPoint() (ref.Pt, string) {
	T := ref.Torsion()
	switch r.Intn(24) {
	case 20, 21, 22, 23:
		if m, cl, ok := r.StructuredCoordinatePoint(); ok {
			return m, cl
		}
		return r.DecodedPoint(), "decoded-uniform"
	case 0:
		return ref.Identity(), "identity"
	case 1:
		if r.Bool() {
			return ref.Base(), "B"
		}
		return ref.Neg(ref.Base()), "-B"
	case 2, 3:
		j := r.Intn(8)
		return T[j], fmt.Sprintf("T%d", j)
	case 4, 5, 6, 7:
		k := big.NewInt(int64(1 + r.Intn(1<<16)))
		j := r.Intn(8)
		return ref.Add(ref.Mul(k, ref.Base()), T[j]), fmt.Sprintf("[small]B+T%d", j)
	case 8, 9:
		sc := r.Scalar()
		j := r.Intn(8)
		return ref.Add(ref.Mul(sc.K, ref.Base()), T[j]), fmt.Sprintf("[%s]B+T%d", sc.Class, j)
	default:
		return r.DecodedPoint(), "decoded-uniform"
	}
}

// DecodedPoint decodes uniform 32-byte strings until one is accepted by the model.
func (r *Rand) DecodedPoint() ref.Pt {
	for {
		b := r.Bytes(32)
		if p, ok := ref.Decode(b); ok {
			return p
		}
	}
}

var scales = []struct {
	name string
	v    func(r *Rand) *big.Int
}{
	{"1", func(*Rand) *big.Int { return big.NewInt(1) }},
	{"-1", func(*Rand) *big.Int { return new(big.Int).Sub(ref.P, big.NewInt(1)) }},
	{"2", func(*Rand) *big.Int { return big.NewInt(2) }},
	{"19", func(*Rand) *big.Int { return big.NewInt(19) }},
	{"i", func(*Rand) *big.Int { return ref.SqrtM1 }},
	{"1/2", func(*Rand) *big.Int { return ref.FInv(big.NewInt(2)) }},
	{"uniform", func(r *Rand) *big.Int {
		for {
			x := r.BigBelow(ref.P)
			if x.Sign() != 0 {
				return x
			}
		}
	}},
	{"uniform", func(r *Rand) *big.Int {
		for {
			x := r.BigBelow(ref.P)
			if x.Sign() != 0 {
				return x
			}
		}
	}},
}

// ExtOf returns the extended coordinates (lam*x, lam*y, lam, lam*x*y) of m as big ints.
func ExtOf(m ref.Pt, lam *big.Int) (X, Y, Z, T *big.Int) {
	return ref.FMul(lam, m.X), ref.FMul(lam, m.Y), ref.Fe(lam), ref.FMul(lam, ref.FMul(m.X, m.Y))
}

// NBuild is the number of library-point construction routes.
const NBuild = 6

// LibPoint builds a library Point equal to m by route b (0..NBuild-1).
func (r *Rand) LibPoint(m ref.Pt, b int) (*edwards25519.Point, string) {
	switch b {
	case 0: // canonical decoding, Z = 1
		enc := ref.Encode(m)
		p, err := new(edwards25519.Point).SetBytes(enc[:])
		if err != nil {
			panic("gen: canonical encoding rejected: " + err.Error())
		}
		return p, "decode"
	case 1: // non-canonical decoding where one exists
		enc := ref.Encode(m)
		desc := "decode"
		if nb := NonCanonBytes(m.Y); nb != nil {
			nb[31] |= enc[31] & 0x80
			copy(enc[:], nb)
			desc = "decode-noncanon-y"
		}
		if ref.Fe(m.X).Sign() == 0 && r.Bool() {
			enc[31] |= 0x80
			desc += "-signbit-x0"
		}
		p, err := new(edwards25519.Point).SetBytes(enc[:])
		if err != nil {
			panic("gen: accepted encoding rejected by library: " + err.Error())
		}
		return p, desc
	case 2, 3: // projective rescaling with per-coordinate limb recipes
		sc := scales[r.Intn(len(scales))]
		lam := sc.v(r)
		X, Y, Z, T := ExtOf(m, lam)
		var es [4]*field.Element
		desc := "ext(scale=" + sc.name
		for i, v := range []*big.Int{X, Y, Z, T} {
			var d string
			rc := r.Intn(NRecipes)
			if b == 2 {
				rc = 0
			}
			es[i], d = r.Repr(v, rc)
			if b == 3 {
				desc += "," + d
			}
		}
		desc += ")"
		p, err := new(edwards25519.Point).SetExtendedCoordinates(es[0], es[1], es[2], es[3])
		if err != nil {
			// A valid quadruple rejected: this is itself an observation (C13); callers treat a
			// nil point as a construction failure to be reported.
			return nil, desc + ":REJECTED"
		}
		return p, desc
	case 4: // through arithmetic: (m - q) + q, non-trivial Z from the addition formulas
		q := r.DecodedPoint()
		a, _ := r.LibPoint(ref.Sub(m, q), 0)
		bq, _ := r.LibPoint(q, 0)
		return new(edwards25519.Point).Add(a, bq), "(m-q)+q"
	default: // doubled-and-halved: [2]((m)/2)? not available; use negate of negation after a rescale
		p, d := r.LibPoint(ref.Neg(m), 2)
		if p == nil {
			return nil, d
		}
		return new(edwards25519.Point).Negate(p), "neg(" + d + ")"
	}
}

// Point draws a model point and a library value for it.
func (r *Rand) Point() PC {
	m, class := r.ModelPoint()
	return r.PointFor(m, class)
}

// PointFor builds a library value for m by a random route.
func (r *Rand) PointFor(m ref.Pt, class string) PC {
	b := r.Intn(NBuild)
	p, d := r.LibPoint(m, b)
	return PC{M: m, P: p, Class: class, Build: d}
}

// K1Identity is the identity built with a literal zero-value X coordinate (the witness class
// of known finding K1).
func K1Identity() *edwards25519.Point {
	one := new(field.Element).One()
	p, err := new(edwards25519.Point).SetExtendedCoordinates(new(field.Element), one, one, new(field.Element))
	if err != nil {
		panic(err)
	}
	return p
}

// StructuredCoordinatePoint looks for a curve point one of whose affine coordinates is a
// structured field value: a small integer, p minus a small integer, a power of two (+-1), a
// limb pattern or another named class value. About half of all candidates are coordinates of
// some point; a few are tried.
func (r *Rand) StructuredCoordinatePoint() (ref.Pt, string, bool) {
	for try := 0; try < 8; try++ {
		var v *big.Int
		var cl string
		switch r.Intn(5) {
		case 0:
			v, cl = big.NewInt(int64(r.Intn(1<<20))), "small"
		case 1:
			v, cl = big.NewInt(int64(r.Intn(400))), "tiny"
		case 2:
			v, cl = new(big.Int).Sub(ref.P, big.NewInt(int64(1+r.Intn(1<<16)))), "p-small"
		case 3:
			v, cl = r.BigBits(1+r.Intn(60)), "short"
		default:
			fc := fieldClasses[r.Intn(len(fieldClasses))]
			v, cl = fc.V, fc.Class
		}
		if r.Bool() {
			if m, ok := ref.FromX(v, r.Bool()); ok {
				return m, "x=" + cl, true
			}
		} else {
			if m, ok := ref.FromY(v, r.Bool()); ok {
				return m, "y=" + cl, true
			}
		}
	}
	return ref.Pt{}, "", false
}
