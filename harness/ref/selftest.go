package ref

import (
	"bytes"
	"crypto/ecdh"
	"crypto/sha512"
	"encoding/hex"
	"fmt"
	"math/big"
	"sync"
)

var (
	torsionOnce sync.Once
	torsion     [8]Pt
)

// Torsion returns the 8 small-order points as T_j = [j]T for a computed point T of order 8.
// They are computed ([l]Q for decoded Q), not hard-coded.
func Torsion() [8]Pt {
	torsionOnce.Do(func() {
		for y := int64(2); ; y++ {
			q, ok := decodeY(big.NewInt(y), 0)
			if !ok {
				continue
			}
			t := Mul(L, q)
			// order exactly 8 iff [4]t != identity
			if Mul(big.NewInt(4), t).Eq(Identity()) {
				continue
			}
			for j := 0; j < 8; j++ {
				torsion[j] = Mul(big.NewInt(int64(j)), t)
			}
			return
		}
	})
	return torsion
}

func unhex(s string) []byte {
	b, err := hex.DecodeString(s)
	if err != nil {
		panic(err)
	}
	return b
}

// SelfTest validates the oracle against independent known answers. A failure makes a
// check inconclusive (oracle broken), never a violation.
func SelfTest() error {
	B := Base()
	if !OnCurve(B) {
		return fmt.Errorf("base point not on curve")
	}
	if enc := Encode(B); hex.EncodeToString(enc[:]) != "5866666666666666666666666666666666666666666666666666666666666666" {
		return fmt.Errorf("base point encoding %x", enc)
	}
	if !Mul(L, B).Eq(Identity()) {
		return fmt.Errorf("[l]B != O")
	}
	if Mul(new(big.Int).Sub(L, one), B).Eq(Identity()) {
		return fmt.Errorf("[l-1]B == O")
	}
	T := Torsion()
	seen := map[string]bool{}
	for j, t := range T {
		if !OnCurve(t) {
			return fmt.Errorf("torsion %d off curve", j)
		}
		if !Mul(big.NewInt(8), t).Eq(Identity()) {
			return fmt.Errorf("[8]T_%d != O", j)
		}
		e := Encode(t)
		seen[string(e[:])] = true
	}
	if len(seen) != 8 {
		return fmt.Errorf("only %d distinct torsion points", len(seen))
	}
	// affine law vs extended formulas, incl. exceptional-looking pairs
	k1, _ := new(big.Int).SetString("123456789abcdef0123456789abcdef0123456789abcdef0123456789abcdef", 16)
	k2, _ := new(big.Int).SetString("fedcba9876543210fedcba9876543210fedcba9876543210fedcba987654321", 16)
	P1 := Add(Mul(k1, B), T[3])
	P2 := Add(Mul(k2, B), T[5])
	if !MulSlow(k1, P2).Eq(Mul(k1, P2)) {
		return fmt.Errorf("MulSlow != Mul")
	}
	for _, pr := range [][2]Pt{{P1, P2}, {P1, P1}, {P1, Neg(P1)}, {P1, Identity()}, {T[1], T[7]}, {T[4], T[4]}, {T[2], P2}} {
		s := Add(pr[0], pr[1])
		if !OnCurve(s) {
			return fmt.Errorf("sum off curve")
		}
		if !extAdd(toExt(pr[0]), toExt(pr[1])).affine().Eq(s) {
			return fmt.Errorf("extAdd != Add")
		}
		if !Add(pr[1], pr[0]).Eq(s) {
			return fmt.Errorf("Add not commutative")
		}
	}
	if !Add(Mul(k1, P1), Mul(k2, P1)).Eq(Mul(new(big.Int).Add(k1, k2), P1)) {
		return fmt.Errorf("Mul not additive")
	}
	// decode/encode round trip incl. laxness
	for _, p := range []Pt{B, P1, P2, T[1], T[2], T[4], Identity()} {
		e := Encode(p)
		q, ok := Decode(e[:])
		if !ok || !q.Eq(p) {
			return fmt.Errorf("Decode(Encode(p)) != p")
		}
	}
	// identity with sign bit set is accepted (x = 0 stays 0)
	idb := Encode(Identity())
	idb[31] |= 0x80
	if q, ok := Decode(idb[:]); !ok || !q.Eq(Identity()) {
		return fmt.Errorf("identity with sign bit")
	}
	// y = p+1 == 1 non-canonical
	nc := IntToLE32(new(big.Int).Add(P, one))
	if q, ok := Decode(nc[:]); !ok || !q.Eq(Identity()) {
		return fmt.Errorf("non-canonical y=p+1")
	}
	// y=2 is not on the curve? (checked numerically against Euler)
	// RFC 8032 7.1 public keys
	vec := [][2]string{
		{"9d61b19deffd5a60ba844af492ec2cc44449c5697b326919703bac031cae7f60", "d75a980182b10ab7d54bfed3c964073a0ee172f3daa62325af021a68f707511a"},
		{"4ccd089b28ff96da9db6c346ec114e0f5b8a319f35aba624da8cf6ed4fb8a6fb", "3d4017c3e843895a92b70aa74d1b7ebc9c982ccf2ec4968cc0cd55f12af4660c"},
		{"c5aa8df43f9f837bedb7442f31dcb7b166d38535076f094b85ce3a2e0b4458f7", "fc51cd8e6218a1a38da47ed00230f0580816ed13ba3303ac5deb911548908025"},
	}
	for _, v := range vec {
		h := sha512.Sum512(unhex(v[0]))
		k := Clamp(h[:32])
		e := Encode(Mul(Sc(k), B))
		if hex.EncodeToString(e[:]) != v[1] {
			return fmt.Errorf("RFC 8032 vector %s: got %x", v[0][:8], e)
		}
		// X25519 public key of the same 32 bytes via crypto/ecdh
		priv, err := ecdh.X25519().NewPrivateKey(h[:32])
		if err != nil {
			return err
		}
		m := Montgomery(Mul(Sc(k), B))
		if !bytes.Equal(m[:], priv.PublicKey().Bytes()) {
			return fmt.Errorf("Montgomery != X25519 public key")
		}
	}
	// RFC 7748 6.1 Alice public key
	ap := unhex("77076d0a7318a57d3c16c17251b26645df4c2f87ebc0992ab177fba51db92c2a")
	m := Montgomery(Mul(Sc(Clamp(ap)), B))
	if hex.EncodeToString(m[:]) != "8520f0098930a754748b7ddcb43ef75a0dbf3a0d26381af4eba4a98eaa9b4e6a" {
		return fmt.Errorf("RFC 7748 vector: %x", m)
	}
	if mi := Montgomery(Identity()); mi != [32]byte{} {
		return fmt.Errorf("Montgomery(identity)")
	}
	// clamping known answer
	ff := bytes.Repeat([]byte{0xff}, 32)
	want, _ := new(big.Int).SetString("7ffffffffffffffffffffffffffffffffffffffffffffffffffffffffffffff8", 16)
	if Clamp(ff).Cmp(want) != 0 {
		return fmt.Errorf("Clamp(ff..)")
	}
	// sqrt ratio case table
	if SqrtM1.Bit(0) != 0 {
		// spec constant is the even root? the RFC value of SQRT_M1 ends ...b0 (even); make sure ours squares to -1 at least
	}
	if FSqr(SqrtM1).Cmp(new(big.Int).Sub(P, one)) != 0 {
		return fmt.Errorf("sqrtM1^2 != -1")
	}
	if r, w := SqrtRatioM1(zero, zero); r.Sign() != 0 || w != 1 {
		return fmt.Errorf("sqrt(0/0)")
	}
	if r, w := SqrtRatioM1(one, zero); r.Sign() != 0 || w != 0 {
		return fmt.Errorf("sqrt(1/0)")
	}
	if r, w := SqrtRatioM1(big.NewInt(4), one); r.Cmp(two) != 0 || w != 1 {
		return fmt.Errorf("sqrt(4/1)")
	}
	// 2 is a non-square mod p: result r with r^2 = i*2
	r, w := SqrtRatioM1(two, one)
	if w != 0 || r.Bit(0) != 0 || FSqr(r).Cmp(FMul(SqrtM1, two)) != 0 {
		return fmt.Errorf("sqrt(2/1)")
	}
	// points from a prescribed coordinate lie on the curve
	nx, ny := 0, 0
	for v := int64(2); v < 40; v++ {
		if m, ok := FromX(big.NewInt(v), v%2 == 0); ok {
			nx++
			if !OnCurve(m) || m.X.Cmp(big.NewInt(v)) != 0 {
				return fmt.Errorf("FromX(%d) off curve", v)
			}
		}
		if m, ok := FromY(big.NewInt(v), v%2 == 0); ok {
			ny++
			if !OnCurve(m) || m.Y.Cmp(big.NewInt(v)) != 0 {
				return fmt.Errorf("FromY(%d) off curve", v)
			}
		}
	}
	if nx < 5 || ny < 5 {
		return fmt.Errorf("FromX/FromY found too few points (%d, %d)", nx, ny)
	}
	// recoding mirrors reconstruct the scalar
	for _, k := range []*big.Int{k1, Sc(k2), new(big.Int).Sub(L, one), big.NewInt(8), big.NewInt(0)} {
		k = Sc(k)
		d := Radix16(k)
		acc := new(big.Int)
		for i := 63; i >= 0; i-- {
			acc.Lsh(acc, 4)
			acc.Add(acc, big.NewInt(int64(d[i])))
			if d[i] < -8 || d[i] > 8 {
				return fmt.Errorf("radix16 digit range")
			}
		}
		if acc.Cmp(k) != 0 {
			return fmt.Errorf("radix16 mirror")
		}
		for _, w := range []uint{5, 8} {
			n := NAF(k, w)
			acc := new(big.Int)
			for i := 255; i >= 0; i-- {
				acc.Lsh(acc, 1)
				acc.Add(acc, big.NewInt(int64(n[i])))
			}
			if acc.Cmp(k) != 0 {
				return fmt.Errorf("naf mirror w=%d", w)
			}
		}
	}
	return nil
}
