package ref
import "testing"
func TestSelf(t *testing.T){ if err:=SelfTest(); err!=nil {t.Fatal(err)} }
func BenchmarkMul(b *testing.B){ B:=Base(); k:=Sc(Two255); for i:=0;i<b.N;i++{ Mul(k,B) } }
