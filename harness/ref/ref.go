// Package ref is the reference model used as the oracle by every monitor. It is
// written with math/big only and does not import the library under test.
package ref

import (
	"math/big"
)

var (
	// P = 2^255 - 19.
	P = new(big.Int).Sub(new(big.Int).Lsh(big.NewInt(1), 255), big.NewInt(19))
	// L = 2^252 + 27742317777372353535851937790883648493.
	L, _ = new(big.Int).SetString("7237005577332262213973186563042994240857116359379907606001950938285454250989", 10)
	// D = -121665/121666 mod p.
	D *big.Int
	// D2 = 2*D.
	D2 *big.Int
	// SqrtM1 = 2^((p-1)/4) mod p.
	SqrtM1 *big.Int

	zero  = big.NewInt(0)
	one   = big.NewInt(1)
	two   = big.NewInt(2)
	pm1h  *big.Int // (p-1)/2
	Two255 = new(big.Int).Lsh(big.NewInt(1), 255)
)

func init() {
	inv := new(big.Int).ModInverse(big.NewInt(121666), P)
	D = new(big.Int).Mul(big.NewInt(-121665), inv)
	D.Mod(D, P)
	D2 = new(big.Int).Lsh(D, 1)
	D2.Mod(D2, P)
	e := new(big.Int).Sub(P, one)
	e.Rsh(e, 2)
	SqrtM1 = new(big.Int).Exp(two, e, P)
	pm1h = new(big.Int).Rsh(new(big.Int).Sub(P, one), 1)
}

// ---------- field ----------

func Fe(x *big.Int) *big.Int { return new(big.Int).Mod(x, P) }

func FAdd(a, b *big.Int) *big.Int { return Fe(new(big.Int).Add(a, b)) }
func FSub(a, b *big.Int) *big.Int { return Fe(new(big.Int).Sub(a, b)) }
func FMul(a, b *big.Int) *big.Int { return Fe(new(big.Int).Mul(a, b)) }
func FNeg(a *big.Int) *big.Int    { return Fe(new(big.Int).Neg(a)) }
func FSqr(a *big.Int) *big.Int    { return FMul(a, a) }

// FInv returns a^-1 mod p, with 0^-1 = 0.
func FInv(a *big.Int) *big.Int {
	a = Fe(a)
	if a.Sign() == 0 {
		return new(big.Int)
	}
	return new(big.Int).ModInverse(a, P)
}

// FPow returns a^e mod p.
func FPow(a, e *big.Int) *big.Int { return new(big.Int).Exp(Fe(a), e, P) }

// IsSquare reports whether a is a square mod p (0 counts as a square).
func IsSquare(a *big.Int) bool {
	a = Fe(a)
	if a.Sign() == 0 {
		return true
	}
	return FPow(a, pm1h).Cmp(one) == 0
}

// EvenSqrt returns the even square root of a square a.
func EvenSqrt(a *big.Int) *big.Int {
	a = Fe(a)
	r := new(big.Int).ModSqrt(a, P)
	if r == nil {
		panic("ref: EvenSqrt of a non-square")
	}
	if r.Bit(0) == 1 {
		r.Sub(P, r)
	}
	return r
}

// FeFromBytes decodes 32 bytes little-endian, ignoring bit 255, reduced mod p.
func FeFromBytes(b []byte) *big.Int {
	if len(b) != 32 {
		panic("ref: FeFromBytes length")
	}
	x := LEToInt(b)
	x.SetBit(x, 255, 0)
	return x.Mod(x, P)
}

// FeBytes encodes the residue of a in 32 bytes little-endian.
func FeBytes(a *big.Int) [32]byte { return IntToLE32(Fe(a)) }

func LEToInt(b []byte) *big.Int {
	be := make([]byte, len(b))
	for i := range b {
		be[len(b)-1-i] = b[i]
	}
	return new(big.Int).SetBytes(be)
}

func IntToLE32(x *big.Int) [32]byte {
	var out [32]byte
	be := x.Bytes()
	if len(be) > 32 {
		panic("ref: IntToLE32 overflow")
	}
	for i := range be {
		out[len(be)-1-i] = be[i]
	}
	return out
}

func IntToLE(x *big.Int, n int) []byte {
	out := make([]byte, n)
	be := x.Bytes()
	if len(be) > n {
		panic("ref: IntToLE overflow")
	}
	for i := range be {
		out[len(be)-1-i] = be[i]
	}
	return out
}

// SqrtRatioM1 implements SQRT_RATIO_M1 from the ristretto255 specification text,
// computed with Euler's criterion and ModSqrt (not with the exponentiation trick).
func SqrtRatioM1(u, v *big.Int) (r *big.Int, wasSquare int) {
	u, v = Fe(u), Fe(v)
	if u.Sign() == 0 {
		return new(big.Int), 1
	}
	if v.Sign() == 0 {
		return new(big.Int), 0
	}
	q := FMul(u, FInv(v))
	if IsSquare(q) {
		return EvenSqrt(q), 1
	}
	return EvenSqrt(FMul(SqrtM1, q)), 0
}

// ---------- curve ----------

// Pt is an affine point on -x^2 + y^2 = 1 + d x^2 y^2.
type Pt struct{ X, Y *big.Int }

func Identity() Pt { return Pt{new(big.Int), big.NewInt(1)} }

// OnCurve reports whether (x,y) satisfies the curve equation.
func OnCurve(p Pt) bool {
	x2, y2 := FSqr(p.X), FSqr(p.Y)
	lhs := FSub(y2, x2)
	rhs := FAdd(one, FMul(D, FMul(x2, y2)))
	return lhs.Cmp(rhs) == 0
}

func (p Pt) Eq(q Pt) bool { return Fe(p.X).Cmp(Fe(q.X)) == 0 && Fe(p.Y).Cmp(Fe(q.Y)) == 0 }

// Add is the complete affine twisted Edwards addition law, a = -1.
func Add(p, q Pt) Pt {
	x1y2 := FMul(p.X, q.Y)
	y1x2 := FMul(p.Y, q.X)
	y1y2 := FMul(p.Y, q.Y)
	x1x2 := FMul(p.X, q.X)
	dxy := FMul(D, FMul(x1x2, y1y2))
	x3 := FMul(FAdd(x1y2, y1x2), FInv(FAdd(one, dxy)))
	y3 := FMul(FAdd(y1y2, x1x2), FInv(FSub(one, dxy)))
	return Pt{x3, y3}
}

func Neg(p Pt) Pt { return Pt{FNeg(p.X), Fe(p.Y)} }

func Sub(p, q Pt) Pt { return Add(p, Neg(q)) }

// ext is an extended-coordinates point used internally for scalar multiples.
type ext struct{ X, Y, Z, T *big.Int }

func toExt(p Pt) ext {
	return ext{Fe(p.X), Fe(p.Y), big.NewInt(1), FMul(p.X, p.Y)}
}

func (e ext) affine() Pt {
	zi := FInv(e.Z)
	return Pt{FMul(e.X, zi), FMul(e.Y, zi)}
}

// extAdd: add-2008-hwcd-3 unified formulas with k = 2d (strongly unified, complete for a=-1).
func extAdd(p, q ext) ext {
	a := new(big.Int).Mul(new(big.Int).Sub(p.Y, p.X), new(big.Int).Sub(q.Y, q.X))
	a.Mod(a, P)
	b := new(big.Int).Mul(new(big.Int).Add(p.Y, p.X), new(big.Int).Add(q.Y, q.X))
	b.Mod(b, P)
	c := new(big.Int).Mul(p.T, q.T)
	c.Mul(c, D2)
	c.Mod(c, P)
	d := new(big.Int).Mul(p.Z, q.Z)
	d.Lsh(d, 1)
	d.Mod(d, P)
	e := new(big.Int).Sub(b, a)
	f := new(big.Int).Sub(d, c)
	g := new(big.Int).Add(d, c)
	h := new(big.Int).Add(b, a)
	return ext{FMul(e, f), FMul(g, h), FMul(f, g), FMul(e, h)}
}

// Mul returns [k]p for a non-negative integer k by binary double-and-add.
func Mul(k *big.Int, p Pt) Pt {
	if k.Sign() < 0 {
		panic("ref: negative multiple")
	}
	acc := toExt(Identity())
	base := toExt(p)
	for i := k.BitLen() - 1; i >= 0; i-- {
		acc = extAdd(acc, acc)
		if k.Bit(i) == 1 {
			acc = extAdd(acc, base)
		}
	}
	return acc.affine()
}

// MulSlow is an independent implementation with the affine law only (self-test).
func MulSlow(k *big.Int, p Pt) Pt {
	acc := Identity()
	for i := k.BitLen() - 1; i >= 0; i-- {
		acc = Add(acc, acc)
		if k.Bit(i) == 1 {
			acc = Add(acc, p)
		}
	}
	return acc
}

// Base is the RFC 8032 base point: y = 4/5, x even... (x is "positive", i.e. even).
func Base() Pt {
	y := FMul(big.NewInt(4), FInv(big.NewInt(5)))
	p, ok := decodeY(y, 0)
	if !ok {
		panic("ref: base point")
	}
	return p
}

func decodeY(y *big.Int, sign uint) (Pt, bool) {
	y2 := FSqr(y)
	u := FSub(y2, one)
	v := FAdd(FMul(D, y2), one)
	// v is never 0: -1/d is a non-square.
	q := FMul(u, FInv(v))
	if !IsSquare(q) {
		return Pt{}, false
	}
	x := EvenSqrt(q)
	if sign == 1 {
		x = FNeg(x) // 0 stays 0
	}
	return Pt{x, Fe(y)}, true
}

// Decode implements the library's documented decoding: length 32, y = low 255 bits mod p,
// accept iff (y^2-1)/(dy^2+1) is a square, x = even root negated iff bit 255 (0 stays 0).
func Decode(b []byte) (Pt, bool) {
	if len(b) != 32 {
		return Pt{}, false
	}
	y := FeFromBytes(b)
	return decodeY(y, uint(b[31]>>7))
}

// Encode is the RFC 8032 encoding.
func Encode(p Pt) [32]byte {
	out := FeBytes(p.Y)
	if Fe(p.X).Bit(0) == 1 {
		out[31] |= 0x80
	}
	return out
}

// Montgomery returns LE of u = (1+y)/(1-y) with 0^-1 = 0.
func Montgomery(p Pt) [32]byte {
	u := FMul(FAdd(one, p.Y), FInv(FSub(one, p.Y)))
	return FeBytes(u)
}

// ExtValid checks Z != 0, -X^2+Y^2 = Z^2+dT^2, XY = ZT.
func ExtValid(X, Y, Z, T *big.Int) bool {
	X, Y, Z, T = Fe(X), Fe(Y), Fe(Z), Fe(T)
	if Z.Sign() == 0 {
		return false
	}
	lhs := FSub(FSqr(Y), FSqr(X))
	rhs := FAdd(FSqr(Z), FMul(D, FSqr(T)))
	if lhs.Cmp(rhs) != 0 {
		return false
	}
	return FMul(X, Y).Cmp(FMul(Z, T)) == 0
}

// ExtAffine returns (X/Z, Y/Z).
func ExtAffine(X, Y, Z *big.Int) Pt {
	zi := FInv(Z)
	return Pt{FMul(X, zi), FMul(Y, zi)}
}

// ---------- scalars ----------

func Sc(x *big.Int) *big.Int { return new(big.Int).Mod(x, L) }

func SAdd(a, b *big.Int) *big.Int { return Sc(new(big.Int).Add(a, b)) }
func SSub(a, b *big.Int) *big.Int { return Sc(new(big.Int).Sub(a, b)) }
func SMul(a, b *big.Int) *big.Int { return Sc(new(big.Int).Mul(a, b)) }
func SNeg(a *big.Int) *big.Int    { return Sc(new(big.Int).Neg(a)) }
func SInv(a *big.Int) *big.Int {
	a = Sc(a)
	if a.Sign() == 0 {
		return new(big.Int)
	}
	return new(big.Int).ModInverse(a, L)
}

// Clamp is the RFC 8032 5.1.5 buffer pruning, as an integer (not reduced).
func Clamp(b []byte) *big.Int {
	if len(b) != 32 {
		panic("ref: Clamp length")
	}
	var c [32]byte
	copy(c[:], b)
	c[0] &= 248
	c[31] &= 127
	c[31] |= 64
	return LEToInt(c[:])
}

// ---------- recoding mirrors (coverage measurement only, never an oracle) ----------

// Radix16 mirrors the signed radix-16 recoding of a canonical scalar.
func Radix16(k *big.Int) [64]int8 {
	b := IntToLE32(k)
	var d [64]int8
	for i := 0; i < 32; i++ {
		d[2*i] = int8(b[i] & 15)
		d[2*i+1] = int8((b[i] >> 4) & 15)
	}
	for i := 0; i < 63; i++ {
		c := (d[i] + 8) >> 4
		d[i] -= c << 4
		d[i+1] += c
	}
	return d
}

// NAF mirrors a width-w non-adjacent form.
func NAF(k *big.Int, w uint) [256]int8 {
	var naf [256]int8
	x := new(big.Int).Set(k)
	width := int64(1) << w
	pos := 0
	for x.Sign() != 0 && pos < 256 {
		if x.Bit(0) == 1 {
			m := new(big.Int).And(x, big.NewInt(width-1)).Int64()
			if m >= width/2 {
				m -= width
			}
			naf[pos] = int8(m)
			x.Sub(x, big.NewInt(m))
		}
		x.Rsh(x, 1)
		pos++
	}
	return naf
}

// FromX returns a curve point with the given x coordinate if one exists: y^2 = (1+x^2)/(1-d x^2).
// odd selects the odd root.
func FromX(x *big.Int, odd bool) (Pt, bool) {
	x = Fe(x)
	x2 := FSqr(x)
	q := FMul(FAdd(one, x2), FInv(FSub(one, FMul(D, x2))))
	if !IsSquare(q) {
		return Pt{}, false
	}
	y := EvenSqrt(q)
	if odd {
		y = FNeg(y)
	}
	return Pt{x, y}, true
}

// FromY returns a curve point with the given y coordinate if one exists.
func FromY(y *big.Int, neg bool) (Pt, bool) {
	s := uint(0)
	if neg {
		s = 1
	}
	return decodeY(Fe(y), s)
}
