// Package raw gives layout-guarded raw views of the library's value types. The guards
// decide between "use the raw view" and "inconclusive"; nothing here is an oracle.
package raw

import (
	"fmt"
	"math/big"
	"reflect"
	"unsafe"

	"filippo.io/edwards25519"
	"filippo.io/edwards25519/field"
)

var (
	elementOK, scalarOK, pointOK bool
	pointOffs                    [4]uintptr
	guardErr                     string
)

func init() {
	et := reflect.TypeOf(field.Element{})
	elementOK = et.Kind() == reflect.Struct && et.Size() == 40 && et.NumField() == 5
	if elementOK {
		for i := 0; i < 5; i++ {
			f := et.Field(i)
			if f.Type.Kind() != reflect.Uint64 || f.Offset != uintptr(8*i) {
				elementOK = false
			}
		}
	}
	if !elementOK {
		guardErr += "field.Element is not 5 x uint64; "
	}
	st := reflect.TypeOf(edwards25519.Scalar{})
	scalarOK = st.Size() == 32 && st.NumField() == 1 && st.Field(0).Type.Kind() == reflect.Array &&
		st.Field(0).Type.Len() == 4 && st.Field(0).Type.Elem().Kind() == reflect.Uint64
	if !scalarOK {
		guardErr += "Scalar is not one [4]uint64; "
	}
	// Point: exactly four Element fields (x, y, z, t in declaration order); any other fields
	// (hints, caches a refactoring may add) are left alone by the limb views below.
	pt := reflect.TypeOf(edwards25519.Point{})
	pointOK = elementOK && pt.Kind() == reflect.Struct
	if pointOK {
		n := 0
		for i := 0; i < pt.NumField(); i++ {
			f := pt.Field(i)
			if f.Type != et {
				continue
			}
			if n < 4 {
				pointOffs[n] = f.Offset
			}
			n++
		}
		if n != 4 {
			pointOK = false
		}
	}
	if !pointOK {
		guardErr += "Point does not hold exactly 4 Elements; "
	}
}

// OK reports whether all layout guards hold, and why not.
func OK() (bool, string) { return elementOK && scalarOK && pointOK, guardErr }

func ElementOK() bool { return elementOK }
func ScalarOK() bool  { return scalarOK }
func PointOK() bool   { return pointOK }

// Limbs returns the five limbs of e.
func Limbs(e *field.Element) [5]uint64 {
	if !elementOK {
		panic("raw: element layout guard failed")
	}
	return *(*[5]uint64)(unsafe.Pointer(e))
}

// ElementBytes returns the 40 raw bytes of e.
func ElementBytes(e *field.Element) [40]byte {
	if !elementOK {
		panic("raw: element layout guard failed")
	}
	return *(*[40]byte)(unsafe.Pointer(e))
}

// SetLimbs overwrites e's limbs (used only for scribbling over returned values in C19 and
// for limb-injection coverage experiments that never decide a verdict).
func SetLimbs(e *field.Element, l [5]uint64) {
	if !elementOK {
		panic("raw: element layout guard failed")
	}
	*(*[5]uint64)(unsafe.Pointer(e)) = l
}

// LimbValue evaluates sum l_i 2^(51 i) mod p.
func LimbValue(l [5]uint64) *big.Int {
	v := new(big.Int)
	for i := 4; i >= 0; i-- {
		v.Lsh(v, 51)
		v.Add(v, new(big.Int).SetUint64(l[i]))
	}
	return v
}

// ScalarLimbs returns the 4 Montgomery-domain limbs of s.
func ScalarLimbs(s *edwards25519.Scalar) [4]uint64 {
	if !scalarOK {
		panic("raw: scalar layout guard failed")
	}
	return *(*[4]uint64)(unsafe.Pointer(s))
}

func SetScalarLimbs(s *edwards25519.Scalar, l [4]uint64) {
	if !scalarOK {
		panic("raw: scalar layout guard failed")
	}
	*(*[4]uint64)(unsafe.Pointer(s)) = l
}

// ScalarLimbInt returns the raw Montgomery-domain integer.
func ScalarLimbInt(l [4]uint64) *big.Int {
	v := new(big.Int)
	for i := 3; i >= 0; i-- {
		v.Lsh(v, 64)
		v.Add(v, new(big.Int).SetUint64(l[i]))
	}
	return v
}

func coord(p *edwards25519.Point, i int) *[5]uint64 {
	return (*[5]uint64)(unsafe.Add(unsafe.Pointer(p), pointOffs[i]))
}

// PointLimbs returns the 4x5 limbs of p (x, y, z, t).
func PointLimbs(p *edwards25519.Point) [4][5]uint64 {
	if !pointOK {
		panic("raw: point layout guard failed")
	}
	return [4][5]uint64{*coord(p, 0), *coord(p, 1), *coord(p, 2), *coord(p, 3)}
}

func SetPointLimbs(p *edwards25519.Point, l [4][5]uint64) {
	if !pointOK {
		panic("raw: point layout guard failed")
	}
	for i := range l {
		*coord(p, i) = l[i]
	}
}

// PointIsZeroValue reports whether p is bit-for-bit the zero value.
func PointIsZeroValue(p *edwards25519.Point) bool {
	return PointSnap(p) == string(make([]byte, unsafe.Sizeof(*p)))
}

func FmtLimbs(l [5]uint64) string {
	return fmt.Sprintf("[%#x %#x %#x %#x %#x]", l[0], l[1], l[2], l[3], l[4])
}

// ---- layout-independent snapshots: the whole value as raw memory, whatever its fields ----

// PointSnap returns the raw memory of p (all fields, including any a refactoring may add).
func PointSnap(p *edwards25519.Point) string {
	return string(unsafe.Slice((*byte)(unsafe.Pointer(p)), unsafe.Sizeof(*p)))
}

// ScalarSnap returns the raw memory of s.
func ScalarSnap(s *edwards25519.Scalar) string {
	return string(unsafe.Slice((*byte)(unsafe.Pointer(s)), unsafe.Sizeof(*s)))
}

// ElementSnap returns the raw memory of e.
func ElementSnap(e *field.Element) string {
	return string(unsafe.Slice((*byte)(unsafe.Pointer(e)), unsafe.Sizeof(*e)))
}
