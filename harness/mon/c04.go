package mon

import (
	"math/big"

	"filippo.io/edwards25519"
	"verifharness/gen"
	"verifharness/ref"
)

// encodingCase produces a 32-byte candidate encoding with a class label.
func encodingCase(r *gen.Rand, i int64) ([]byte, string) {
	one := big.NewInt(1)
	switch i % 13 {
	case 12:
		// decoding decides by comparing v*r^2 with u, -u, -u*i (u = y^2-1): choose y so that two
		// of those candidates differ by a structured value, u = delta/(zeta - zeta')
		roots := []*big.Int{big.NewInt(1), ref.FNeg(big.NewInt(1)), ref.SqrtM1, ref.FNeg(ref.SqrtM1)}
		for try := 0; try < 6; try++ {
			a := r.Intn(4)
			b := (a + 1 + r.Intn(3)) % 4
			u := ref.FMul(r.StructuredDelta(), ref.FInv(ref.FSub(roots[a], roots[b])))
			y2 := ref.FAdd(u, one)
			if ref.IsSquare(y2) {
				y := ref.EvenSqrt(y2)
				if r.Bool() {
					y = ref.FNeg(y)
				}
				bb := ref.FeBytes(y)
				if r.Bool() {
					bb[31] |= 0x80
				}
				return bb[:], "candidates differ by a structured value"
			}
		}
		return r.Bytes(32), "uniform"
	case 0, 1, 2:
		return r.Bytes(32), "uniform"
	case 3: // valid encoding, sign flipped
		m, _ := r.ModelPoint()
		e := ref.Encode(m)
		e[31] ^= 0x80
		return e[:], "valid-signflip"
	case 4: // non-canonical y in [p, 2^255), both signs: 19 values x 2
		k := int((i / 12) % 38)
		y := new(big.Int).Add(ref.P, big.NewInt(int64(k%19)))
		b := ref.IntToLE32(y)
		if k >= 19 {
			b[31] |= 0x80
		}
		return b[:], "noncanonical-y"
	case 5: // special y values
		ys := []*big.Int{big.NewInt(0), one, big.NewInt(2), new(big.Int).Sub(ref.P, one), ref.P, new(big.Int).Add(ref.P, one),
			new(big.Int).Sub(ref.Two255, one), new(big.Int).Sub(ref.P, big.NewInt(2)), ref.SqrtM1, ref.FNeg(ref.SqrtM1), big.NewInt(19), big.NewInt(18)}
		k := int((i / 12) % int64(2*len(ys)))
		b := ref.IntToLE32(ys[k%len(ys)])
		if k >= len(ys) {
			b[31] |= 0x80
		}
		return b[:], "special-y"
	case 6: // nearest neighbours of a valid encoding
		m, _ := r.ModelPoint()
		y := new(big.Int).Add(m.Y, big.NewInt(int64(r.Intn(5)-2)))
		b := ref.FeBytes(y)
		if r.Bool() {
			b[31] |= 0x80
		}
		return b[:], "neighbour-of-valid"
	case 7: // valid canonical encoding of a structured point
		m, _ := r.ModelPoint()
		e := ref.Encode(m)
		return e[:], "valid-canonical"
	case 8: // x = 0 points with the sign bit set; y small with +p
		ys := []*big.Int{one, new(big.Int).Sub(ref.P, one), new(big.Int).Add(ref.P, one)}
		b := ref.IntToLE32(ys[r.Intn(3)])
		b[31] |= 0x80
		return b[:], "x=0-signbit"
	case 9: // single bit flips of a valid encoding
		m, _ := r.ModelPoint()
		e := ref.Encode(m)
		k := r.Intn(256)
		e[k/8] ^= 1 << (k % 8)
		return e[:], "valid-bitflip"
	case 10: // low-weight / patterned strings
		b := make([]byte, 32)
		switch r.Intn(4) {
		case 0:
			for k := 0; k < 1+r.Intn(4); k++ {
				j := r.Intn(256)
				b[j/8] |= 1 << (j % 8)
			}
		case 1:
			for k := range b {
				b[k] = 0xff
			}
			j := r.Intn(256)
			b[j/8] ^= 1 << (j % 8)
		case 2:
			v := byte(r.Intn(256))
			for k := range b {
				b[k] = v
			}
		default:
			copy(b, r.Bytes(8))
		}
		return b, "patterned"
	default: // y = sqrt-ratio corner: u = 0 (y = +-1), v*u patterns; y with y^2 = 1/(-d) impossible; use i-related
		ys := []*big.Int{ref.SqrtM1, ref.FMul(ref.SqrtM1, big.NewInt(2)), ref.FInv(ref.SqrtM1), ref.D, ref.FNeg(ref.D), ref.FInv(ref.D)}
		b := ref.FeBytes(ys[r.Intn(len(ys))])
		if r.Bool() {
			b[31] |= 0x80
		}
		return b[:], "constant-related-y"
	}
}

// C04: point decoding accepts exactly the documented set and yields the right point.
func C04(c *Ctx) {
	n := c.N(400000, 20000000)
	for i := int64(0); i < n; i++ {
		if !c.Mine(i) {
			continue
		}
		r := c.Begin(i)
		// wrong lengths: every length 0..100 (and a few larger) is tried many times
		if i%40 == 39 {
			ln := int((i / 40) % 104)
			if ln >= 101 {
				ln = []int{128, 255, 1024}[ln-101]
			}
			if ln == 32 {
				ln = 33
			}
			b := r.Bytes(ln)
			if ln >= 32 && r.Bool() { // a valid encoding as prefix / suffix
				m, _ := r.ModelPoint()
				e := ref.Encode(m)
				if r.Bool() {
					copy(b, e[:])
				} else {
					copy(b[ln-32:], e[:])
				}
			}
			b = b[:ln:ln]
			var p *edwards25519.Point
			var err error
			pv := catch(func() { p, err = new(edwards25519.Point).SetBytes(b) })
			c.Eval(true, []byte{byte(ln), byte(ln >> 8)}, b)
			c.Bit("wrong lengths tried", 104, int((i/40)%104))
			if pv != nil || p != nil || err == nil {
				c.Fail("wrong length accepted or panicked", map[string]any{"len": ln, "panic": pv, "input": hx(b)})
			}
			c.Tally("class:wrong-length")
			continue
		}
		b, class := encodingCase(r, i)
		b = b[:32:32]
		want, ok := ref.Decode(b)
		// receiver state: zero value or a valid point
		v := new(edwards25519.Point)
		if r.Bool() {
			v = edwards25519.NewGeneratorPoint()
		}
		var p *edwards25519.Point
		var err error
		pv := catch(func() { p, err = v.SetBytes(b) })
		c.Eval(true, b)
		c.Tally("class:" + class)
		det := map[string]any{"input": hx(b), "class": class, "oracle-accepts": ok}
		if pv != nil {
			det["panic"] = pv
			c.Fail("unexpected panic", det)
			continue
		}
		if ok != (err == nil) {
			c.Fail("accept/reject differs from the oracle", det)
			continue
		}
		if !ok {
			c.Tally("rejected")
			if p != nil {
				c.Fail("error with non-nil point", det)
			}
			continue
		}
		c.Tally("accepted")
		if string(b) != string(encOf(want)) {
			c.Tally("accepted-noncanonical")
		}
		if p != v {
			c.Fail("returned pointer is not the receiver", det)
		}
		if why, st := checkPoint(v, want); why != "" {
			det["why"] = why
			det["got"] = hx(st.Enc)
			det["want"] = ptHex(want)
			c.Fail("decoded point differs from the oracle", det)
			continue
		}
		c.Sample(class, map[string]any{"input": hx(b), "class": class, "accepted": ok, "point": ptHex(want)})
	}
}

func encOf(m ref.Pt) []byte { e := ref.Encode(m); return e[:] }
