package mon

import (
	"math/big"

	"filippo.io/edwards25519"
	"verifharness/gen"
	"verifharness/raw"
	"verifharness/ref"
)

// C05: encoding canonical, representation-independent, round-trips.
func C05(c *Ctx) {
	n := c.N(16000, 500000)
	for i := int64(0); i < n; i++ {
		if !c.Mine(i) {
			continue
		}
		r := c.Begin(i)
		m, cls := r.ModelPoint()
		if i%7 == 0 { // y just below p / x = 0 / y small (non-canonical forms exist)
			m = r.DecodedPoint()
			for k := 0; k < 40; k++ {
				y := new(big.Int).Sub(ref.P, big.NewInt(int64(1+r.Intn(40))))
				if r.Bool() {
					y = big.NewInt(int64(r.Intn(40)))
				}
				b := ref.FeBytes(y)
				if pt, ok := ref.Decode(b[:]); ok {
					m, cls = pt, "y-near-0-or-p"
					break
				}
			}
		}
		want := ref.Encode(m)
		nontriv := !m.Eq(ref.Identity())
		// (a) every construction route, several scalings each
		for b := 0; b < gen.NBuild+4; b++ {
			p, how := r.LibPoint(m, b%gen.NBuild)
			if p == nil {
				c.Fail("construction", map[string]any{"why": "valid coordinates rejected", "how": how})
				continue
			}
			var enc, enc2 []byte
			before := raw.PointSnap(p)
			pv := catch(func() { enc = p.Bytes(); enc2 = p.Bytes() })
			c.Eval(nontriv, want[:], []byte(how))
			c.Tally("build:" + buildKey(how))
			det := map[string]any{"point": hx(want[:]), "class": cls, "via": how, "got": hx(enc)}
			if pv != nil {
				det["panic"] = pv
				c.Fail("unexpected panic", det)
				continue
			}
			if string(enc) != string(want[:]) {
				c.Fail("Bytes differs from the canonical encoding", det)
				continue
			}
			if string(enc2) != string(want[:]) {
				c.Fail("a second Bytes call on the same point returns something else", det)
				continue
			}
			// Bytes may not change what the point IS (a value-preserving internal rewrite is
			// not forbidden by this property; a concurrent reader would be C18's business)
			if raw.PointSnap(p) != before {
				c.Tally("Bytes rewrote its receiver (recorded, not a violation by itself)")
			}
			if why, _ := checkPoint(p, m); why != "" {
				det["why"] = why
				c.Fail("after Bytes the point is no longer a valid representation of the same point", det)
				continue
			}
			// the encoded point must still be usable: encode, then feed it to arithmetic that
			// reads all four coordinates, then encode the result
			if b%3 == 0 {
				g := edwards25519.NewGeneratorPoint()
				sum := new(edwards25519.Point).Add(p, g)
				dbl := new(edwards25519.Point).Add(p, p)
				c.Eval(nontriv, want[:], []byte(how), []byte("encode-then-use"))
				if string(sum.Bytes()) != string(encOf(ref.Add(m, ref.Base()))) || string(dbl.Bytes()) != string(encOf(ref.Add(m, m))) {
					c.Fail("a point gives wrong results in later arithmetic after it was encoded", det)
				}
			}
			// round trip
			q, err := new(edwards25519.Point).SetBytes(enc)
			if err != nil || q.Equal(p) != 1 || string(q.Bytes()) != string(want[:]) {
				c.Fail("SetBytes(Bytes(P)) is not P", det)
			}
			c.Sample("route:"+buildKey(how), map[string]any{"point": hx(want[:]), "class": cls, "via": how})
		}
		// (b) the same point through different histories
		if i%2 == 0 {
			q := r.Point()
			if q.P != nil {
				pp, _ := r.LibPoint(ref.Sub(m, q.M), r.Intn(2))
				h1 := new(edwards25519.Point).Add(pp, q.P)
				h2 := new(edwards25519.Point).Add(q.P, pp)
				a, b := r.UniformScalar().K, r.UniformScalar().K
				// [a]Q + [b]Q vs [a+b]Q
				h3 := new(edwards25519.Point).Add(new(edwards25519.Point).ScalarMult(gen.LibScalar(a), q.P), new(edwards25519.Point).ScalarMult(gen.LibScalar(b), q.P))
				h4 := new(edwards25519.Point).ScalarMult(gen.LibScalar(ref.SAdd(a, b)), q.P)
				d1 := new(edwards25519.Point).Add(q.P, q.P)
				d1.Add(d1, d1)
				d1.Add(d1, d1)
				d2 := new(edwards25519.Point).MultByCofactor(q.P)
				c.Eval(true, want[:], []byte("histories"), encOf(q.M))
				c.Tally("history-pairs")
				if string(h1.Bytes()) != string(want[:]) || string(h2.Bytes()) != string(want[:]) {
					c.Fail("P+Q / Q+P encodings differ from the model", map[string]any{"want": hx(want[:]), "h1": hx(h1.Bytes()), "h2": hx(h2.Bytes())})
				}
				// [a]Q+[b]Q == [a+b]Q only on the prime-order component when a+b wraps mod l; compare with the model instead
				w3 := ref.Add(ref.Mul(a, q.M), ref.Mul(b, q.M))
				if string(h3.Bytes()) != string(encOf(w3)) {
					c.Fail("[a]Q+[b]Q encoding differs from the model", map[string]any{"Q": ptHex(q.M)})
				}
				w4 := ref.Mul(ref.SAdd(a, b), q.M)
				if string(h4.Bytes()) != string(encOf(w4)) {
					c.Fail("[a+b]Q encoding differs from the model", map[string]any{"Q": ptHex(q.M)})
				}
				if string(d1.Bytes()) != string(d2.Bytes()) || string(d1.Bytes()) != string(encOf(ref.Mul(big.NewInt(8), q.M))) {
					c.Fail("three doublings vs MultByCofactor encodings differ", map[string]any{"Q": ptHex(q.M)})
				}
			}
		}
		// (c) accepted non-canonical inputs re-encode canonically
		if nb := gen.NonCanonBytes(m.Y); nb != nil {
			nb[31] |= want[31] & 0x80
			p, err := new(edwards25519.Point).SetBytes(nb)
			c.Eval(true, nb, []byte("noncanon"))
			c.Tally("noncanonical-reencode")
			if err != nil || string(p.Bytes()) != string(want[:]) {
				c.Fail("non-canonical input does not re-encode canonically", map[string]any{"input": hx(nb), "want": hx(want[:])})
			}
		}
		if ref.Fe(m.X).Sign() == 0 {
			sb := append([]byte(nil), want[:]...)
			sb[31] |= 0x80
			p, err := new(edwards25519.Point).SetBytes(sb)
			c.Eval(true, sb, []byte("signbit-x0"))
			c.Tally("x0-signbit-reencode")
			if err != nil || string(p.Bytes()) != string(want[:]) {
				c.Fail("x=0 with sign bit does not re-encode canonically", map[string]any{"input": hx(sb), "want": hx(want[:])})
			}
		}
		// (d) a long-lived object: encoded, then given new values through every assigning method
		// in turn; each time both encoders must describe the value it holds NOW
		if i%2 == 1 {
			start := r.Point()
			if start.P != nil {
				obj := start.P
				var hist []string
				obj.Bytes()
				obj.BytesMontgomery()
				for k := 0; k < 4; k++ {
					tm := m
					if k%2 == 1 {
						tm, _ = r.ModelPoint()
					}
					how := reassign(r, obj, tm, int(i/2)+k*3)
					if how == "" {
						continue
					}
					hist = append(hist, how)
					te := ref.Encode(tm)
					tu := ref.Montgomery(tm)
					got, gotU := obj.Bytes(), obj.BytesMontgomery()
					c.Eval(true, te[:], []byte("long-lived"), []byte(how))
					c.Tally("long-lived object re-encoded after " + assignKey(how))
					if string(got) != string(te[:]) || string(gotU) != string(tu[:]) {
						c.Fail("an object that was encoded before and then given a new value encodes as something else", map[string]any{"assignments": hist, "want": hx(te[:]), "got": hx(got), "want-u": hx(tu[:]), "got-u": hx(gotU), "first-value": ptHex(start.M)})
						break
					}
				}
			}
		}
	}
}

// assignKey strips the operand description from a reassign description.
func assignKey(how string) string {
	for i := 0; i < len(how); i++ {
		if how[i] == '(' {
			return how[:i]
		}
	}
	return how
}
