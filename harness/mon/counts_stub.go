//go:build !verif_instr

package mon

const CountsAvailable = false

func countMode(on bool)             {}
func countsSnapshot() []int64       { return nil }
func siteName(i int) string         { return "" }
func onceLitSites() []uint32        { return nil }
func onceHostSites() []uint32       { return nil }
func maxInflight(site uint32) int64 { return 0 }
func setDelay(site int, ns int64)   {}
func siteIsEntry(i int) bool        { return false }
