//go:build verif_instr

package mon

import (
	"fmt"
	"sort"
	"strings"

	"filippo.io/edwards25519/verifct"
	"verifharness/gen"
)

// TraceAvailable reports whether this build carries the source-level leakage tracer.
const TraceAvailable = true

// exemptFuncs: no code is exempt by name. Decoder validity decisions are handled by comparing
// within one accept class and, for SetCanonicalBytes, within the class of inputs on which the
// comparison with l decides at its first step (see ctops.go).
var exemptFuncs = map[string]bool{}

func traceOf(op *ctOp, in *ctInputs) []verifct.Event {
	in.EnsureOuts()
	verifct.Reset()
	verifct.Mode = 1
	op.run(in)
	verifct.Mode = 0
	out := make([]verifct.Event, 0, len(verifct.Buf))
	for _, e := range verifct.Buf {
		if int(e.Site) < len(verifct.SiteFuncs) && exemptFuncs[verifct.SiteFuncs[e.Site]] {
			continue
		}
		out = append(out, e)
	}
	return out
}

func traceHash(t []verifct.Event) uint64 {
	h := uint64(14695981039346656037)
	for _, e := range t {
		for _, x := range []uint64{uint64(e.Site), uint64(e.Kind), e.Val} {
			h ^= x
			h *= 1099511628211
		}
	}
	return h
}

type divergence struct {
	Index int
	Site  string
	Func  string
	A, B  string
}

func fmtEvent(t []verifct.Event, i int) string {
	if i >= len(t) {
		return "<end of trace>"
	}
	e := t[i]
	kinds := []string{"?", "F", "B", "P", "I", "S", "D", "A"}
	return fmt.Sprintf("%s(%s)=%d", kinds[e.Kind], verifct.SiteNames[e.Site], e.Val)
}

// diverge returns the successive divergences between two traces: after each one, the
// events of the function it occurred in are removed from both traces and the comparison is
// repeated, so that an accepted (known) divergence cannot mask another one.
func diverge(a, b []verifct.Event) []divergence {
	var out []divergence
	for round := 0; round < 6; round++ {
		n := len(a)
		if len(b) < n {
			n = len(b)
		}
		j := 0
		for j < n && a[j] == b[j] {
			j++
		}
		if j == n && len(a) == len(b) {
			return out
		}
		var ev verifct.Event
		if j < len(a) {
			ev = a[j]
		} else {
			ev = b[j]
		}
		// attribute to the function of the last common or first differing event
		fn := verifct.SiteFuncs[ev.Site]
		if j < len(a) && j < len(b) && a[j].Site != b[j].Site && j > 0 {
			// control flow already diverged before j: the deciding event is the last common one
			// only if it was a branch; otherwise keep the first differing event's function
			if a[j-1].Kind == verifct.KB || a[j-1].Kind == verifct.KP {
				fn = verifct.SiteFuncs[a[j-1].Site]
				ev = a[j-1]
			}
		}
		out = append(out, divergence{Index: j, Site: verifct.SiteNames[ev.Site], Func: fn, A: fmtEvent(a, j), B: fmtEvent(b, j)})
		filter := func(t []verifct.Event) []verifct.Event {
			o := t[:0:0]
			for _, e := range t {
				if verifct.SiteFuncs[e.Site] != fn {
					o = append(o, e)
				}
			}
			return o
		}
		a, b = filter(a), filter(b)
	}
	return out
}

// C03 (source level): leakage traces of two runs with different secrets must be identical.
func C03(c *Ctx) {
	if c.Mode == "emit-images" {
		c03Emit(c)
		return
	}
	ops := CTOps()
	nper := c.N(64, 2000)
	// warm-up: lazily built tables and one pass over every operation, outside any trace
	WarmTables()
	refIn := make([]ctInputs, len(ops))
	refTr := make([][]verifct.Event, len(ops))
	for oi := range ops {
		refIn[oi] = ops[oi].gen(gen.New(c.Seed, propStream(c.Prop), 1<<40+uint64(oi)), 0)
		refIn[oi].EnsureOuts()
		ops[oi].run(&refIn[oi])
		refTr[oi] = traceOf(&ops[oi], &refIn[oi])
		// determinism of the tracer itself: same input, same trace
		again := traceOf(&ops[oi], &refIn[oi])
		if traceHash(again) != traceHash(refTr[oi]) || len(again) != len(refTr[oi]) {
			c.Tally("start-up trace of an entry point changed on its second run (non-input state such as a pool or a lazily built table): " + ops[oi].name)
			refTr[oi] = again
		}
		if c.Worker == 0 {
			c.Res.Extra["trace:"+ops[oi].name] = fmt.Sprintf("%d events, hash %016x", len(refTr[oi]), traceHash(refTr[oi]))
		}
		if verifct.Overflow {
			c.Inconclusive("trace buffer overflow for " + ops[oi].name)
		}
	}
	if len(verifct.SiteNames) == 0 {
		c.Inconclusive("no instrumentation sites in this build")
		return
	}
	c.Res.Extra["sites"] = len(verifct.SiteNames)
	n := int64(len(ops)) * nper
	for i := int64(0); i < n; i++ {
		if !c.Mine(i) {
			continue
		}
		r := c.Begin(i)
		oi := int(i % int64(len(ops)))
		k := 1 + int(i/int64(len(ops)))
		op := &ops[oi]
		in := op.gen(r, k)
		tr := traceOf(op, &in)
		c.Eval(true, []byte(op.name), []byte(fmt.Sprint(k)), []byte(in.Class), in.Bytes)
		c.Tally("op:" + op.name)
		c.TallyN("events compared", int64(len(tr)))
		if hasZeroXLimbs(&in) {
			c.Tally("assignments in the K1 witness class (a point input with all-zero X limbs)")
		}
		if traceHash(tr) == traceHash(refTr[oi]) && len(tr) == len(refTr[oi]) {
			c.Sample(op.name, map[string]any{"op": op.name, "assignment": k, "class": in.Class, "events": len(tr), "trace-hash": fmt.Sprintf("%016x", traceHash(tr)), "identical-to-reference-assignment": true})
			continue
		}
		// A difference from the reference trace recorded at start-up is attributed to the
		// secret values only if it is reproducible with the two assignments interleaved now
		// (reference, this, reference, this): state that is not an input - a pooled buffer
		// that exists after the first call, a lazily built table - legitimately changes a
		// trace between the first call of a process and later ones.
		same := func(x, y []verifct.Event) bool { return len(x) == len(y) && traceHash(x) == traceHash(y) }
		r1 := traceOf(op, &refIn[oi])
		t1 := traceOf(op, &in)
		r2 := traceOf(op, &refIn[oi])
		t2 := traceOf(op, &in)
		c.Tally("differences from the start-up reference trace re-examined with interleaved runs")
		if !same(r1, r2) || !same(t1, t2) {
			// not reproducible for a fixed input: find the functions whose events vary with
			// non-input state (same input, different trace), drop their events from all four
			// traces and compare what is left; if that is still not reproducible, give up
			vol := map[string]bool{}
			dv := append(diverge(r1, r2), diverge(t1, t2)...)
			for _, d := range dv {
				vol[d.Func] = true
			}
			strip := func(t []verifct.Event) []verifct.Event {
				o := t[:0:0]
				for _, e := range t {
					if !vol[verifct.SiteFuncs[e.Site]] {
						o = append(o, e)
					}
				}
				return o
			}
			r1, r2, t1, t2 = strip(r1), strip(r2), strip(t1), strip(t2)
			names := make([]string, 0, len(vol))
			for f := range vol {
				names = append(names, f)
			}
			sort.Strings(names)
			if len(dv) >= 6 || !same(r1, r2) || !same(t1, t2) {
				c.Inconclusive("trace of " + op.name + " is not reproducible for a fixed input (it depends on state other than the inputs): the two-run comparison decides nothing for this entry point")
				continue
			}
			c.Inconclusive("trace of " + op.name + " depends on non-input state inside " + strings.Join(names, ", ") + ": events of these functions are excluded from the comparison for this entry point")
		}
		if same(r1, t1) {
			c.Tally("trace differed from the start-up reference only through non-input state (not a violation): " + op.name)
			refTr[oi] = r1 // steady state from here on
			continue
		}
		tr = t1
		refTrNow := r1
		class := in.Class
		if hasZeroXLimbs(&in) != hasZeroXLimbs(&refIn[oi]) {
			class = "point-input-with-all-zero-X-limbs"
		}
		for _, d := range diverge(refTrNow, tr) {
			c.FailAt("leakage trace depends on secret values", d.Func, class, map[string]any{
				"op": op.name, "assignment": k, "class": in.Class, "reference-class": refIn[oi].Class,
				"first-difference-at-event": d.Index, "site": d.Site, "function": d.Func, "reference-event": d.A, "this-event": d.B,
				"trace-lengths": []int{len(refTrNow), len(tr)}, "reproduced": "reference/this/reference/this interleaved: both reproducible, different"})
		}
	}
}
