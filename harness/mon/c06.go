package mon

import (
	"math/big"

	"filippo.io/edwards25519"
	"verifharness/gen"
	"verifharness/ref"
)

// C06: Point.Equal decides point equality exactly.
func C06(c *Ctx) {
	n := c.N(160000, 4000000)
	T := ref.Torsion()
	for i := int64(0); i < n; i++ {
		if !c.Mine(i) {
			continue
		}
		r := c.Begin(i)
		var m1, m2 ref.Pt
		var rel string
		kind := int(i % 10)
		base, cls := r.ModelPoint()
		switch kind {
		case 0, 1, 2: // same point, two representations/histories
			m1, m2, rel = base, base, "same-point"
		case 3: // translate by a non-trivial torsion point
			j := 1 + r.Intn(7)
			m1, m2, rel = base, ref.Add(base, T[j]), "P vs P+T"
		case 4:
			m1, m2, rel = base, ref.Neg(base), "P vs -P"
		case 5: // (x,y) vs (x,-y): shares the x coordinate only
			m1, m2, rel = base, ref.Pt{X: base.X, Y: ref.FNeg(base.Y)}, "(x,y) vs (x,-y)"
		case 6: // small-order points among themselves, exhaustive over the run
			a, b := int(i/10)%8, int(i/80)%8
			m1, m2, rel = T[a], T[b], "small-order pair"
			c.Bit("small-order pairs", 64, a*8+b)
		case 7: // same y... other x does not exist; use same prime-order part different torsion both sides
			j1, j2 := r.Intn(8), r.Intn(8)
			m1, m2, rel = ref.Add(base, T[j1]), ref.Add(base, T[j2]), "P+Ta vs P+Tb"
		default:
			m2, _ = r.ModelPoint()
			m1, rel = base, "independent"
		}
		p := r.PointFor(m1, cls)
		q := r.PointFor(m2, rel)
		// Equal compares cross products X1*Z2 vs X2*Z1 (and Y): for unequal points sharing a
		// coordinate, choose Q's projective scale so that the DIFFERENCE of the cross products
		// is a structured value (power of two, limb pattern, small): an inexact comparison that
		// ignores some bits shows up exactly there.
		if (kind == 4 || kind == 5 || kind == 3) && i%20 >= 10 && p.P != nil {
			delta := gen.FieldClasses()[r.Intn(len(gen.FieldClasses()))].V
			if r.Bool() {
				delta = new(big.Int).Lsh(big.NewInt(1), uint(r.Intn(255)))
			}
			// P in Z=1 form: t1 - t2 = x1*Z2 - x2*Z2 = (x1 - x2)*lam; likewise for y
			d := ref.FSub(m1.X, m2.X)
			if kind == 5 || d.Sign() == 0 {
				d = ref.FSub(m1.Y, m2.Y)
			}
			if d.Sign() != 0 && ref.Fe(delta).Sign() != 0 {
				lam := ref.FMul(delta, ref.FInv(d))
				pp, _ := r.LibPoint(m1, 0)
				X, Y, Z, T := gen.ExtOf(m2, lam)
				ex, ey, ez, et := gen.Canon(X), gen.Canon(Y), gen.Canon(Z), gen.Canon(T)
				if r.Bool() {
					ex, _ = r.RandRepr(X)
					ez, _ = r.RandRepr(Z)
				}
				if qq, err := new(edwards25519.Point).SetExtendedCoordinates(ex, ey, ez, et); err == nil && pp != nil {
					p = gen.PC{M: m1, P: pp, Class: cls, Build: "decode"}
					q = gen.PC{M: m2, P: qq, Class: rel, Build: "ext(cross-product difference structured)"}
					rel += " [structured cross-product difference]"
				}
			}
		}
		if !validPoint(r, &p) || !validPoint(r, &q) {
			c.Fail("construction", map[string]any{"why": "SetExtendedCoordinates rejected valid coordinates repeatedly"})
			continue
		}
		want := 0
		if m1.Eq(m2) {
			want = 1
		}
		e1, e2 := ref.Encode(m1), ref.Encode(m2)
		c.Tally("relation:" + rel)
		c.Tally("build:" + buildKey(p.Build))
		c.Tally("build:" + buildKey(q.Build))
		for ord := 0; ord < 2; ord++ {
			a, b := p.P, q.P
			if ord == 1 {
				a, b = q.P, p.P
			}
			if want == 1 && kind == 2 && ord == 1 {
				b = a // literally the same pointer
			}
			var got int
			pv := catch(func() { got = a.Equal(b) })
			c.Eval(!(m1.Eq(ref.Identity()) && m2.Eq(ref.Identity())), []byte{byte(ord)}, e1[:], e2[:], []byte(p.Build), []byte(q.Build))
			det := map[string]any{"P": hx(e1[:]) + " via " + p.Build, "Q": hx(e2[:]) + " via " + q.Build, "relation": rel, "order": ord, "want": want, "got": got}
			if pv != nil {
				det["panic"] = pv
				c.Fail("unexpected panic", det)
				continue
			}
			if got != want {
				c.Fail("Equal wrong", det)
			}
			c.Tally([]string{"expected:0", "expected:1"}[want])
		}
		c.Sample(rel, map[string]any{"P": hx(e1[:]) + " via " + p.Build, "Q": hx(e2[:]) + " via " + q.Build, "relation": rel, "equal": want})
	}
	_ = gen.NBuild
	_ = edwards25519.NewIdentityPoint
}
