//go:build !verif_shim

package mon

import (
	"math/big"

	"filippo.io/edwards25519"
	"verifharness/gen"
)

const ShimAvailable = false

func (c *Ctx) shimChecks(r *gen.Rand, i int64, k *big.Int, s *edwards25519.Scalar, pc *gen.PC) {}
