// Package mon holds one runtime monitor per property. A monitor drives the real library
// over a deterministic case list and observes it against the reference model.
package mon

import (
	"encoding/binary"
	"encoding/hex"
	"fmt"
	"math/big"
	"os"
	"runtime"
	"sort"
	"syscall"

	"filippo.io/edwards25519"
	"filippo.io/edwards25519/field"
	"verifharness/gen"
	"verifharness/raw"
	"verifharness/ref"
)

// Violation is one observed refutation of the property.
type Violation struct {
	Case   int64          `json:"case"`
	Kind   string         `json:"kind"`
	Site   string         `json:"site,omitempty"`  // for known-finding matching
	Class  string         `json:"class,omitempty"` // witness class
	Detail map[string]any `json:"detail"`
}

// Result is what a worker reports to the controller.
type Result struct {
	Prop         string            `json:"prop"`
	Config       string            `json:"config"`
	Worker       int               `json:"worker"`
	Cases        int64             `json:"cases"`
	Evaluations  int64             `json:"evaluations"`
	Nontrivial   int64             `json:"nontrivial"`
	Tallies      map[string]int64  `json:"tallies"`
	Maxima       map[string]uint64 `json:"maxima"`
	Samples      []map[string]any  `json:"samples"`
	Violations   []Violation       `json:"violations"`
	Inconclusive []string          `json:"inconclusive"`
	Extra        map[string]any    `json:"extra,omitempty"`
	Bitsets      map[string][]byte `json:"bitsets,omitempty"` // merged by OR in the controller
}

// Ctx is the per-worker context handed to a monitor.
type Ctx struct {
	Prop     string
	Seed     uint64
	Tier     string
	Config   string
	Worker   int
	NWorkers int
	OnlyCase int64
	Verbose  bool
	Mode     string

	Res      Result
	hashes   map[uint64]struct{}
	progress []byte // mmap of the progress file
	cur      int64
	sampleN  map[string]int
	stop     bool

	resumeFrom int64 // cases below this index were already run (restart after a recovered panic)
	began      bool
}

const maxViolations = 12

// maxHashes caps the per-worker distinct-case set; beyond it the reported distinct count is a lower bound.
const maxHashes = 1500000

func NewCtx(prop string, seed uint64, tier, config string, worker, nworkers int, only int64, progressPath string) *Ctx {
	c := &Ctx{Prop: prop, Seed: seed, Tier: tier, Config: config, Worker: worker, NWorkers: nworkers, OnlyCase: only}
	c.Res = Result{Prop: prop, Config: config, Worker: worker, Tallies: map[string]int64{}, Maxima: map[string]uint64{}, Extra: map[string]any{}}
	c.hashes = map[uint64]struct{}{}
	c.sampleN = map[string]int{}
	if progressPath != "" {
		f, err := os.OpenFile(progressPath, os.O_RDWR|os.O_CREATE, 0o644)
		if err == nil {
			f.Truncate(16)
			m, err := syscall.Mmap(int(f.Fd()), 0, 16, syscall.PROT_READ|syscall.PROT_WRITE, syscall.MAP_SHARED)
			if err == nil {
				c.progress = m
			}
			f.Close()
		}
	}
	return c
}

// Thorough reports whether the thorough tier was requested.
func (c *Ctx) Thorough() bool { return c.Tier == "thorough" }

// N picks the case count for the tier.
func (c *Ctx) N(quick, thorough int64) int64 {
	if c.Thorough() {
		// additional build configurations (slower: 64-bit arithmetic emulated on 386) get a
		// bounded share of the thorough budget
		if extraConfig && thorough > 8*quick {
			return 8 * quick
		}
		return thorough
	}
	return quick
}

// extraConfig is set by the controller for stages that run a monitor in an additional build
// configuration (alsoIn in cmd/vctl/plans.go).
var extraConfig = os.Getenv("VERIF_EXTRA_CONFIG") == "1"

// Mine reports whether case i belongs to this worker (and passes the replay filter).
func (c *Ctx) Mine(i int64) bool {
	if c.stop || i < c.resumeFrom {
		return false
	}
	if c.OnlyCase >= 0 {
		return i == c.OnlyCase && c.Worker == 0
	}
	// cases are dealt to workers by a hash of the index, so that every worker sees every kind
	// of case whatever period the monitor uses to pick kinds
	h := uint64(i)*0x9e3779b97f4a7c15 + 0x7f4a7c15
	h ^= h >> 29
	h *= 0xbf58476d1ce4e5b9
	h ^= h >> 32
	return int(h%uint64(c.NWorkers)) == c.Worker
}

// Begin marks the start of case i (for crash attribution) and returns its generator.
func (c *Ctx) Begin(i int64) *gen.Rand {
	c.cur = i
	c.began = true
	c.Res.Cases++
	if c.progress != nil {
		binary.LittleEndian.PutUint64(c.progress[0:8], uint64(i)+1)
	}
	return gen.New(c.Seed, propStream(c.Prop), uint64(i))
}

func propStream(p string) uint64 { return gen.Hash64([]byte(p)) }

// Eval records one oracle decision. parts identify the input tuple for distinct counting.
func (c *Ctx) Eval(nontrivial bool, parts ...[]byte) {
	c.Res.Evaluations++
	if nontrivial {
		if len(c.hashes) < maxHashes {
			c.hashes[gen.Hash64(parts...)] = struct{}{}
		} else {
			c.Res.Tallies["distinct-counting-saturated(lower bound reported)"]++
		}
	}
}

func (c *Ctx) Tally(key string) { c.Res.Tallies[key]++ }

// Bit sets bit idx of the named coverage bitset (size bits).
func (c *Ctx) Bit(name string, size, idx int) {
	if c.Res.Bitsets == nil {
		c.Res.Bitsets = map[string][]byte{}
	}
	b := c.Res.Bitsets[name]
	if b == nil {
		b = make([]byte, (size+7)/8)
		c.Res.Bitsets[name] = b
	}
	if idx >= 0 && idx < size {
		b[idx/8] |= 1 << (idx % 8)
	}
}

func (c *Ctx) TallyN(key string, n int64) { c.Res.Tallies[key] += n }

func (c *Ctx) Max(key string, v uint64) {
	if v > c.Res.Maxima[key] {
		c.Res.Maxima[key] = v
	}
}

// Sample keeps up to two written-out cases per key.
func (c *Ctx) Sample(key string, s map[string]any) {
	if c.sampleN[key] >= 1 || len(c.Res.Samples) >= 10 {
		return
	}
	c.sampleN[key]++
	s["case"] = c.cur
	s["key"] = key
	c.Res.Samples = append(c.Res.Samples, s)
}

func (c *Ctx) Inconclusive(msg string) {
	for _, m := range c.Res.Inconclusive {
		if m == msg {
			return
		}
	}
	c.Res.Inconclusive = append(c.Res.Inconclusive, msg)
}

// Fail records a violation.
func (c *Ctx) Fail(kind string, detail map[string]any) {
	c.FailAt(kind, "", "", detail)
}

func (c *Ctx) FailAt(kind, site, class string, detail map[string]any) {
	if len(c.Res.Violations) >= maxViolations {
		c.stop = true
		return
	}
	c.Res.Violations = append(c.Res.Violations, Violation{Case: c.cur, Kind: kind, Site: site, Class: class, Detail: detail})
}

// Finish finalises counters; hashes are written to hashPath for the controller's union.
func (c *Ctx) Finish(hashPath string) {
	c.Res.Nontrivial = int64(len(c.hashes))
	if hashPath != "" {
		hs := make([]uint64, 0, len(c.hashes))
		for h := range c.hashes {
			hs = append(hs, h)
		}
		sort.Slice(hs, func(i, j int) bool { return hs[i] < hs[j] })
		b := make([]byte, 8*len(hs))
		for i, h := range hs {
			binary.LittleEndian.PutUint64(b[8*i:], h)
		}
		os.WriteFile(hashPath, b, 0o644)
	}
	if c.progress != nil {
		binary.LittleEndian.PutUint64(c.progress[8:16], 1) // clean finish marker
	}
}

// ---------- shared observation helpers ----------

func hx(b []byte) string { return hex.EncodeToString(b) }

func ptHex(m ref.Pt) string { e := ref.Encode(m); return hx(e[:]) }

// catch runs f and returns the recovered panic value (nil if none).
func catch(f func()) (pv any) {
	defer func() {
		if r := recover(); r != nil {
			pv = fmt.Sprint(r)
		}
	}()
	f()
	return nil
}

// pointState describes what was observed of a library point.
type pointState struct {
	OK         bool
	Why        string
	Enc        []byte
	Affine     ref.Pt
	X, Y, Z, T *big.Int
}

// feVal reads an element's value through its raw limbs when the guard allows, else Bytes.
func feVal(e *field.Element) *big.Int {
	if raw.ElementOK() {
		return ref.Fe(raw.LimbValue(raw.Limbs(e)))
	}
	return ref.FeFromBytes(e.Bytes())
}

// observePoint exports p's coordinates and checks validity against big-int arithmetic.
func observePoint(p *edwards25519.Point) (st pointState) {
	if pv := catch(func() {
		X, Y, Z, T := p.ExtendedCoordinates()
		st.X, st.Y, st.Z, st.T = ref.FeFromBytes(X.Bytes()), ref.FeFromBytes(Y.Bytes()), ref.FeFromBytes(Z.Bytes()), ref.FeFromBytes(T.Bytes())
		st.Enc = p.Bytes()
	}); pv != nil {
		st.Why = fmt.Sprintf("panic: %v", pv)
		return
	}
	if st.Z.Sign() == 0 {
		st.Why = "Z == 0"
		return
	}
	if !ref.ExtValid(st.X, st.Y, st.Z, st.T) {
		st.Why = "coordinates violate the curve equation or XY=ZT"
		return
	}
	st.Affine = ref.ExtAffine(st.X, st.Y, st.Z)
	st.OK = true
	return
}

// checkPoint compares a library point with the model point m. It returns "" if everything
// agrees: coordinates valid, affine point == m, Bytes == reference encoding.
func checkPoint(p *edwards25519.Point, m ref.Pt) (string, pointState) {
	st := observePoint(p)
	if !st.OK {
		return "invalid point: " + st.Why, st
	}
	if !st.Affine.Eq(m) {
		return "affine coordinates differ from the model", st
	}
	want := ref.Encode(m)
	if string(st.Enc) != string(want[:]) {
		return "Bytes() differs from the reference encoding", st
	}
	return "", st
}

// checkLimbs asserts the documented limb bound on all coordinates of p (when the guard allows).
func (c *Ctx) checkPointLimbs(p *edwards25519.Point, what string) bool {
	if !raw.PointOK() {
		c.Inconclusive("raw layout guard failed: limb bounds not observed")
		return true
	}
	l := raw.PointLimbs(p)
	ok := true
	for i := range l {
		for j := range l[i] {
			c.Max("point-limb", l[i][j])
			if l[i][j] >= 1<<52 {
				ok = false
			}
		}
	}
	if !ok {
		c.Fail("limb bound", map[string]any{"what": what, "limbs": fmt.Sprint(l)})
	}
	return ok
}

func (c *Ctx) checkFeLimbs(e *field.Element, what string) bool {
	if !raw.ElementOK() {
		c.Inconclusive("raw layout guard failed: limb bounds not observed")
		return true
	}
	l := raw.Limbs(e)
	for j := range l {
		c.Max("fe-limb"+fmt.Sprint(j), l[j])
		if l[j] >= 1<<52 {
			c.Fail("limb bound", map[string]any{"what": what, "limbs": raw.FmtLimbs(l)})
			return false
		}
	}
	return true
}

func scalarBytes(s *edwards25519.Scalar) []byte { return s.Bytes() }

func intHex(x *big.Int) string { return x.Text(16) }

// globalsSnapshot is the per-variable digest map at some point of a run.
type globalsSnapshot map[string][32]byte

// WarmTables forces the lazily built tables so that later digests are comparable.
func WarmTables() {
	s := gen.LibScalar(big.NewInt(3))
	p := new(edwards25519.Point).ScalarBaseMult(s)
	new(edwards25519.Point).VarTimeDoubleScalarBaseMult(s, p, s)
}

// checkGlobals compares the package-globals digest with a reference snapshot and RECORDS the
// variables that differ. A difference is not a violation by itself: lazily built tables and
// pooled scratch legitimately change package-level state during operations; what the
// properties forbid is a change of OUTPUTS (checked against the model everywhere) and a change
// of package state caused by writing to a returned value (rawWriteChangedGlobals).
func (c *Ctx) checkGlobals(ref globalsSnapshot, when string) {
	if !GlobalsAvailable || ref == nil {
		c.Inconclusive("globals digest hook not available in this build")
		return
	}
	now := GlobalsDigests()
	c.Tally("globals-digest-checks")
	for k, v := range ref {
		if now[k] != v {
			c.Tally("package-level variable changed since the post-warm-up snapshot (recorded, not a violation by itself): " + k)
		}
	}
}

// Mech records a finding about an internal mechanism (recoding digit ranges, table entries)
// observed through the optional in-package shim. It is a diagnostic, not a verdict: the
// property constrains the results of the multiplications, and a refactoring may change the
// conventions of the recodings and tables (digit range, which multiples a table holds) while
// every result stays exact. Every such finding is tallied, and reported once per kind as an
// inconclusive note so that it is looked at; wrong results are decided by the output-level
// comparison with the model, which every mechanism-level mutant and seed also trips (§9.4).
func (c *Ctx) Mech(kind string, det map[string]any) {
	key := "mechanism diagnostic (shim; recorded, not a verdict): " + kind
	if c.Res.Tallies[key] == 0 {
		c.Inconclusive(key + " - first instance: " + fmt.Sprint(det))
	}
	c.Tally(key)
}

// rawWrite runs f, which must consist of the harness's own stores into previously returned
// values and of nothing else (no library call), between two package-globals digests. Any
// difference is exact: the returned value shares memory with package-level state.
func (c *Ctx) rawWrite(what string, det func() map[string]any, f func()) {
	if !GlobalsAvailable {
		f()
		return
	}
	before := GlobalsDigests()
	f()
	after := GlobalsDigests()
	c.Tally("raw writes to returned values bracketed by package-state digests")
	for k, v := range before {
		if after[k] != v {
			d := det()
			d["variable"], d["write"] = k, what
			c.Fail("writing to a returned value changed package-level state", d)
		}
	}
}

// RunMonitor runs f, turning a panic that escapes a case (a library call made by a generator
// or a monitor outside its own recover, e.g. a valid encoding rejected by a broken build)
// into a violation attributed to that case, and resuming with the next case.
func (c *Ctx) RunMonitor(f func(*Ctx)) {
	for restarts := 0; restarts <= maxViolations; restarts++ {
		c.began = false
		pv := catchStack(func() { f(c) })
		if pv == nil {
			return
		}
		c.Fail("panic escaped from a case (library call panicked or rejected a valid construction)", map[string]any{"panic": pv})
		if !c.began {
			return // panicked before any case: restarting would loop
		}
		c.resumeFrom = c.cur + 1
	}
}

func catchStack(f func()) (pv any) {
	defer func() {
		if r := recover(); r != nil {
			buf := make([]byte, 2048)
			n := runtime.Stack(buf, false)
			pv = fmt.Sprint(r) + " | " + string(buf[:n])
		}
	}()
	f()
	return nil
}
