package mon

import (
	"encoding/json"
	"fmt"
	"os"
	"path/filepath"

	"filippo.io/edwards25519"
	"filippo.io/edwards25519/field"
	"verifharness/gen"
)

// c03Emit writes secret assignments as raw operand images for the machine-level tracer:
// assign-0 is the reference, assign-1..K-1 avoid the K1 witness class, assign-z1/z2 are two
// members of that class (every point input's slot 0 replaced by the identity / the order-2
// point, both with literal-zero X limbs).
func c03Emit(c *Ctx) {
	dir := filepath.Join(os.Getenv("VERIF_SCRATCH"), "lackey")
	os.MkdirAll(dir, 0o755)
	ops := CTOps()
	K := int(c.N(8, 128))
	meta := map[string]any{}
	gen0 := func(oi int) ctInputs {
		return ops[oi].gen(gen.New(c.Seed, propStream(c.Prop), 2<<40+uint64(oi)), 0)
	}
	write := func(name string, ins []ctInputs) {
		var img []byte
		var classes []string
		for i := range ins {
			img = append(img, ins[i].Image()...)
			classes = append(classes, ins[i].Class)
		}
		os.WriteFile(filepath.Join(dir, "assign-"+name+".bin"), img, 0o644)
		meta[name] = classes
	}
	for k := 0; k < K; k++ {
		if !c.Mine(int64(k)) {
			continue
		}
		r := c.Begin(int64(k))
		ins := make([]ctInputs, len(ops))
		for oi := range ops {
			if k == 0 {
				ins[oi] = gen0(oi)
			} else {
				ins[oi] = ops[oi].gen(r, k)
			}
			for tries := 0; hasZeroXLimbs(&ins[oi]) && tries < 50; tries++ {
				ins[oi] = ops[oi].gen(r, 13+4*tries+1) // uniform classes
			}
			if hasZeroXLimbs(&ins[oi]) {
				c.Inconclusive("could not avoid the K1 witness class for " + ops[oi].name)
			}
			c.Eval(true, []byte("machine-assignment"), []byte(ops[oi].name), []byte(fmt.Sprint(k)), ins[oi].Image())
			if hasZeroLowXLimb(&ins[oi]) {
				ins[oi].Class += " [point-input-with-zero-low-X-limb]"
				c.Tally("machine-level (assignment, entry point) pairs in the zero-low-X-limb class")
			}
		}
		write(fmt.Sprint(k), ins)
		c.Tally("machine-level assignments emitted")
	}
	if c.Worker == 0 {
		one := new(field.Element).One()
		m1 := new(field.Element).Negate(one)
		z2, err := new(edwards25519.Point).SetExtendedCoordinates(new(field.Element), m1, one, new(field.Element))
		if err == nil {
			for _, nm := range []string{"z1", "z2"} {
				ins := make([]ctInputs, len(ops))
				for oi := range ops {
					ins[oi] = gen0(oi)
					if len(ins[oi].Pts) > 0 {
						if nm == "z1" {
							ins[oi].Pts[0] = gen.K1Identity()
						} else {
							ins[oi].Pts[0] = z2
						}
						ins[oi].Class = "point-input-with-all-zero-X-limbs"
					}
				}
				write(nm, ins)
			}
		}
	}
	b, _ := json.Marshal(meta)
	os.WriteFile(filepath.Join(dir, fmt.Sprintf("meta-%d.json", c.Worker)), b, 0o644)
	c.Res.Extra["entry-points"] = CTOpNames()
}
