package mon

import (
	"encoding/json"
	"fmt"
	"math/big"
	"os"
	"path/filepath"
	"verifharness/raw"
	"verifharness/ref"

	"filippo.io/edwards25519"
	"filippo.io/edwards25519/field"
	"verifharness/gen"
)

// c03Emit writes secret assignments as raw operand images for the machine-level tracer:
// assign-0 is the reference, assign-1..K-1 avoid the K1 witness class, assign-z1/z2 are two
// members of that class (every point input's slot 0 replaced by the identity / the order-2
// point, both with literal-zero X limbs).
func c03Emit(c *Ctx) {
	dir := filepath.Join(os.Getenv("VERIF_SCRATCH"), "lackey")
	os.MkdirAll(dir, 0o755)
	ops := CTOps()
	K := int(c.N(8, 128))
	meta := map[string]any{}
	gen0 := func(oi int) ctInputs {
		return ops[oi].gen(gen.New(c.Seed, propStream(c.Prop), 2<<40+uint64(oi)), 0)
	}
	write := func(name string, ins []ctInputs) {
		var img []byte
		var classes []string
		for i := range ins {
			img = append(img, ins[i].Image()...)
			classes = append(classes, ins[i].Class)
		}
		os.WriteFile(filepath.Join(dir, "assign-"+name+".bin"), img, 0o644)
		meta[name] = classes
	}
	for k := 0; k < K; k++ {
		if !c.Mine(int64(k)) {
			continue
		}
		r := c.Begin(int64(k))
		ins := make([]ctInputs, len(ops))
		for oi := range ops {
			if k == 0 {
				ins[oi] = gen0(oi)
			} else {
				ins[oi] = ops[oi].gen(r, k)
			}
			for tries := 0; hasZeroXLimbs(&ins[oi]) && tries < 50; tries++ {
				ins[oi] = ops[oi].gen(r, 13+4*tries+1) // uniform classes
			}
			if hasZeroXLimbs(&ins[oi]) {
				c.Inconclusive("could not avoid the K1 witness class for " + ops[oi].name)
			}
			c.Eval(true, []byte("machine-assignment"), []byte(ops[oi].name), []byte(fmt.Sprint(k)), ins[oi].Image())
			if hasZeroLowXLimb(&ins[oi]) {
				ins[oi].Class += " [point-input-with-zero-low-X-limb]"
				c.Tally("machine-level (assignment, entry point) pairs in the zero-low-X-limb class")
			}
		}
		write(fmt.Sprint(k), ins)
		c.Tally("machine-level assignments emitted")
	}
	if c.Worker == 0 {
		one := new(field.Element).One()
		m1 := new(field.Element).Negate(one)
		z2, err := new(edwards25519.Point).SetExtendedCoordinates(new(field.Element), m1, one, new(field.Element))
		if err == nil {
			for _, nm := range []string{"z1", "z2"} {
				ins := make([]ctInputs, len(ops))
				for oi := range ops {
					ins[oi] = gen0(oi)
					if len(ins[oi].Pts) > 0 {
						if nm == "z1" {
							ins[oi].Pts[0] = gen.K1Identity()
						} else {
							ins[oi].Pts[0] = z2
						}
						ins[oi].Class = "point-input-with-all-zero-X-limbs"
					}
				}
				write(nm, ins)
			}
		}
		// z3: the second witness class of K1 - a valid point whose X has a zero lowest limb
		// without being all zero (x = k * 2^204 given as a canonical element)
		if z3 := zeroLowXLimbPoint(); z3 != nil {
			ins := make([]ctInputs, len(ops))
			for oi := range ops {
				ins[oi] = gen0(oi)
				if len(ins[oi].Pts) > 0 {
					ins[oi].Pts[0] = z3
					ins[oi].Class = "point-input-with-zero-low-X-limb"
				}
			}
			write("z3", ins)
		} else {
			c.Inconclusive("no witness of the zero-low-X-limb class could be constructed (layout guard failed or no such point found)")
		}
	}
	b, _ := json.Marshal(meta)
	os.WriteFile(filepath.Join(dir, fmt.Sprintf("meta-%d.json", c.Worker)), b, 0o644)
	c.Res.Extra["entry-points"] = CTOpNames()
}

// zeroLowXLimbPoint returns a valid point, built through SetExtendedCoordinates, whose X limbs are
// [0 0 0 0 k] for a small k > 0, or nil.
func zeroLowXLimbPoint() *edwards25519.Point {
	if !raw.PointOK() {
		return nil
	}
	for k := int64(1); k < 4096; k++ {
		x := new(big.Int).Lsh(big.NewInt(k), 204)
		for _, odd := range []bool{false, true} {
			m, ok := ref.FromX(x, odd)
			if !ok {
				continue
			}
			// through SetExtendedCoordinates with canonical coordinate elements: the point keeps
			// exactly the limbs it is given
			p, err := new(edwards25519.Point).SetExtendedCoordinates(gen.Canon(m.X), gen.Canon(m.Y), gen.Canon(big.NewInt(1)), gen.Canon(ref.FMul(m.X, m.Y)))
			if err != nil {
				continue
			}
			l := raw.PointLimbs(p)
			if l[0][0] == 0 && l[0][1] == 0 && l[0][2] == 0 && l[0][3] == 0 && l[0][4] != 0 {
				return p
			}
		}
	}
	return nil
}
