package mon

import (
	"math/big"

	"filippo.io/edwards25519"
	"verifharness/gen"
	"verifharness/ref"
)

func scalarBytesCase(r *gen.Rand, i int64) ([]byte, string) {
	one := big.NewInt(1)
	L := ref.L
	lm1 := ref.IntToLE32(new(big.Int).Sub(L, one))
	switch i % 10 {
	case 0:
		vals := []*big.Int{new(big.Int).Sub(L, one), L, new(big.Int).Add(L, one), new(big.Int).Lsh(one, 252), new(big.Int).Sub(new(big.Int).Lsh(one, 253), one),
			new(big.Int).Sub(new(big.Int).Lsh(one, 256), one), big.NewInt(0), one, new(big.Int).Sub(L, big.NewInt(2)), new(big.Int).Lsh(L, 1), new(big.Int).Sub(new(big.Int).Lsh(one, 255), one),
			new(big.Int).Lsh(one, 255), new(big.Int).Add(L, new(big.Int).Lsh(one, 255))}
		b := ref.IntToLE32(vals[int(i/10)%len(vals)])
		return b[:], "boundary"
	case 1, 2: // equal to l-1 above byte pos, +-1 at pos, random below: lexicographic compare boundary
		pos := int(i/10) % 32
		b := append([]byte(nil), lm1[:]...)
		copy(b[:pos], r.Bytes(pos))
		if i%10 == 1 {
			if b[pos] < 255 {
				b[pos]++
			}
			return b, "l-1 with byte+1"
		}
		if b[pos] > 0 {
			b[pos]--
		}
		return b, "l-1 with byte-1"
	case 3: // l-1 with random low part only (stays equal above)
		pos := r.Intn(33)
		b := append([]byte(nil), lm1[:]...)
		copy(b[:pos], r.Bytes(pos))
		return b, "l-1 random low part"
	case 4:
		x := r.BigBelow(L)
		b := ref.IntToLE32(x)
		return b[:], "uniform<l"
	case 5:
		b := r.Bytes(32)
		return b, "uniform-256bit"
	case 6: // l + small, l - small, k*l
		d := big.NewInt(int64(r.Intn(2001) - 1000))
		k := big.NewInt(int64(1 + r.Intn(15)))
		x := new(big.Int).Add(new(big.Int).Mul(k, L), d)
		if x.Sign() < 0 || x.BitLen() > 256 {
			x = new(big.Int).Add(L, big.NewInt(int64(r.Intn(1000))))
		}
		b := ref.IntToLE32(x)
		return b[:], "k*l+-small"
	case 7: // single bit on top of l-1 / single bits
		b := make([]byte, 32)
		if r.Bool() {
			copy(b, lm1[:])
		}
		k := r.Intn(256)
		b[k/8] ^= 1 << (k % 8)
		return b, "single-bit"
	case 8: // top byte sweep with random rest
		b := r.Bytes(32)
		b[31] = byte(i / 10)
		return b, "top-byte-sweep"
	default:
		s := r.Scalar()
		b := ref.IntToLE32(s.K)
		return b[:], "structured<l"
	}
}

func wideBytesCase(r *gen.Rand, i int64) ([]byte, string) {
	one := big.NewInt(1)
	b := make([]byte, 64)
	switch i % 9 {
	case 8: // each 32-byte half is itself a boundary value of the 32-byte classes (l-1, k*l+-small, ...)
		lo, _ := scalarBytesCase(r, int64(r.Intn(1<<20)))
		hi, _ := scalarBytesCase(r, int64(r.Intn(1<<20)))
		if r.Chance(1, 3) {
			lo = make([]byte, 32)
		} else if r.Chance(1, 3) {
			hi = make([]byte, 32)
		}
		copy(b[:32], lo)
		copy(b[32:], hi)
		return b, "halves-from-32-byte-classes"
	case 0:
		for k := range b {
			b[k] = 0xff
		}
		if k := int(i/8) % 513; k < 512 {
			b[k/8] ^= 1 << (k % 8)
		}
		return b, "all-ones-minus-bit"
	case 1:
		k := int(i/8) % 512
		b[k/8] = 1 << (k % 8)
		return b, "single-bit"
	case 2: // extremes around the 21/42-byte split
		for k := range b {
			b[k] = []byte{0, 0xff}[r.Intn(2)]
		}
		for _, p := range []int{20, 21, 41, 42} {
			b[p] = byte(r.Intn(256))
		}
		return b, "split-boundaries"
	case 3: // k*l +- small near 2^512
		q := new(big.Int).Div(new(big.Int).Sub(new(big.Int).Lsh(one, 512), one), ref.L)
		k := new(big.Int).Sub(q, big.NewInt(int64(r.Intn(1000))))
		x := new(big.Int).Mul(k, ref.L)
		x.Add(x, big.NewInt(int64(r.Intn(5)-2)))
		if x.BitLen() > 512 || x.Sign() < 0 {
			x = new(big.Int).Mul(q, ref.L)
		}
		return ref.IntToLE(x, 64), "k*l near 2^512"
	case 4: // one third non-zero
		t := r.Intn(3)
		lo, hi := []int{0, 21, 42}[t], []int{21, 42, 64}[t]
		copy(b[lo:hi], r.Bytes(hi-lo))
		return b, "one-third"
	case 5: // small multiples of l
		k := big.NewInt(int64(r.Intn(1 << 20)))
		x := new(big.Int).Mul(k, ref.L)
		x.Add(x, big.NewInt(int64(r.Intn(3))))
		return ref.IntToLE(x, 64), "small k*l"
	default:
		return r.Bytes(64), "uniform"
	}
}

// C08: scalar encodings.
func C08(c *Ctx) {
	n := c.N(2000000, 800000000)
	for i := int64(0); i < n; i++ {
		if !c.Mine(i) {
			continue
		}
		r := c.Begin(i)
		switch i % 4 {
		case 0, 1: // SetCanonicalBytes + Bytes round trip
			b, class := scalarBytesCase(r, i/4)
			b = b[:32:32]
			x := ref.LEToInt(b)
			ok := x.Cmp(ref.L) < 0
			recv := new(edwards25519.Scalar)
			if r.Bool() {
				recv = gen.LibScalar(r.BigBelow(ref.L))
			}
			var s *edwards25519.Scalar
			var err error
			pv := catch(func() { s, err = recv.SetCanonicalBytes(b) })
			c.Eval(true, []byte("canon"), b)
			c.Tally("SetCanonicalBytes:" + class)
			det := map[string]any{"input": hx(b), "class": class, "oracle-accepts": ok}
			if pv != nil {
				det["panic"] = pv
				c.Fail("unexpected panic", det)
				continue
			}
			if ok != (err == nil) {
				c.Fail("SetCanonicalBytes accept/reject differs from value < l", det)
				continue
			}
			if !ok {
				c.Tally("rejected")
				if s != nil {
					c.Fail("error with non-nil scalar", det)
				}
				continue
			}
			c.Tally("accepted")
			if s != recv {
				c.Fail("returned pointer is not the receiver", det)
			}
			if out := recv.Bytes(); string(out) != string(b) {
				det["bytes"] = hx(out)
				c.Fail("Bytes does not round-trip the canonical input", det)
			}
			c.checkScalar(recv, x, "SetCanonicalBytes", func() map[string]any { return det })
			c.Sample("canon:"+class, map[string]any{"input": hx(b), "class": class, "accepted": ok})
		case 2: // SetUniformBytes
			b, class := wideBytesCase(r, i/4)
			b = b[:64:64]
			x := ref.LEToInt(b)
			recv := new(edwards25519.Scalar)
			var s *edwards25519.Scalar
			var err error
			pv := catch(func() { s, err = recv.SetUniformBytes(b) })
			c.Eval(true, []byte("wide"), b)
			c.Tally("SetUniformBytes:" + class)
			det := map[string]any{"input": hx(b), "class": class}
			if pv != nil || err != nil || s != recv {
				det["panic"], det["err"] = pv, err != nil
				c.Fail("SetUniformBytes failed on 64 bytes", det)
				continue
			}
			c.checkScalar(recv, ref.Sc(x), "SetUniformBytes", func() map[string]any { return det })
			c.Sample("wide:"+class, map[string]any{"input": hx(b), "class": class})
		default:
			if (i/4)%8 == 7 { // wrong lengths for all three setters
				ln := int((i / 32) % 104)
				if ln >= 101 {
					ln = []int{128, 255, 1024}[ln-101]
				}
				b := r.Bytes(ln)
				b = b[:ln:ln]
				c.Bit("wrong lengths tried", 104, int((i/32)%104))
				for k, f := range []func(*edwards25519.Scalar, []byte) (*edwards25519.Scalar, error){
					(*edwards25519.Scalar).SetCanonicalBytes, (*edwards25519.Scalar).SetUniformBytes, (*edwards25519.Scalar).SetBytesWithClamping} {
					right := []int{32, 64, 32}[k]
					if ln == right {
						continue
					}
					var s *edwards25519.Scalar
					var err error
					pv := catch(func() { s, err = f(new(edwards25519.Scalar), b) })
					c.Eval(true, []byte{byte(k), byte(ln), byte(ln >> 8)}, b)
					c.Tally("wrong-length")
					if pv != nil || s != nil || err == nil {
						c.Fail("wrong length accepted or panicked", map[string]any{"setter": k, "len": ln, "panic": pv})
					}
				}
				continue
			}
			// SetBytesWithClamping
			b, class := scalarBytesCase(r, i/4)
			if r.Chance(1, 3) {
				b = r.Bytes(32)
				class = "uniform"
			}
			b = b[:32:32]
			recv := new(edwards25519.Scalar)
			var s *edwards25519.Scalar
			var err error
			pv := catch(func() { s, err = recv.SetBytesWithClamping(b) })
			c.Eval(true, []byte("clamp"), b)
			c.Tally("SetBytesWithClamping:" + class)
			det := map[string]any{"input": hx(b), "class": class}
			if pv != nil || err != nil || s != recv {
				det["panic"], det["err"] = pv, err != nil
				c.Fail("SetBytesWithClamping failed on 32 bytes", det)
				continue
			}
			c.checkScalar(recv, ref.Sc(ref.Clamp(b)), "SetBytesWithClamping", func() map[string]any { return det })
		}
	}
}
