//go:build amd64

#include "textflag.h"

// func getBP() uintptr — the caller's frame-pointer register.
TEXT ·getBP(SB),NOSPLIT,$0-8
	MOVQ BP, ret+0(FP)
	RET
