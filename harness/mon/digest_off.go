//go:build !verif_globals

package mon

const GlobalsAvailable = false

func GlobalsDigests() map[string][32]byte { return nil }

func combineDigests(m map[string][32]byte) [32]byte { return [32]byte{} }
