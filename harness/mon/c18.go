package mon

import (
	"fmt"
	"math/big"
	"os"
	"strconv"
	"strings"
	"sync"
	"sync/atomic"
	"time"

	"filippo.io/edwards25519"
	"filippo.io/edwards25519/field"
	"verifharness/gen"
	"verifharness/ref"
)

// C18: one cold process per worker. The worker index selects goroutine count, delay
// injection and workload mix. Race reports are collected by the controller from the race
// detector's log files; this monitor checks results, construction counts and contention.
func C18(c *Ctx) {
	w := c.Worker
	if c.OnlyCase >= 0 {
		w = int(c.OnlyCase)
	}
	r := c.Begin(int64(w))
	G := []int{2, 4, 16, 64}[w%4]
	delays := (w/4)%2 == 1
	seqRef := c.Mode == "sequential-reference"
	if seqRef {
		G, delays = 2, false // the two first-use calls are made one after the other
	}
	c.Tally(fmt.Sprintf("processes with %d goroutines", G))
	if delays {
		c.Tally("processes with injected delays")
	}
	// everything the goroutines need is computed before any table use, with the model only
	k0 := r.Scalar().K
	if k0.Sign() == 0 {
		k0 = big.NewInt(12345)
	}
	A := r.DecodedPoint()
	wantBase := ref.Mul(k0, ref.Base())
	wantDouble := ref.Add(ref.Mul(k0, A), wantBase)
	encBase, encDouble := encOf(wantBase), encOf(wantDouble)
	libK := gen.LibScalar(k0)
	libA, _ := r.LibPoint(A, 0)

	// delay sites come from the sequential reference process of the same build (controller
	// passes them), never from names
	if delays && CountsAvailable {
		for _, f := range strings.Split(os.Getenv("VERIF_DELAY_SITES"), ",") {
			if id, err := strconv.Atoi(f); err == nil {
				setDelay(id, int64(200_000+r.Intn(1_800_000)))
				c.Tally("delay sites armed")
			}
		}
	}
	countMode(true)

	// ---- phase A: simultaneous first use of both tables
	var start, wg sync.WaitGroup
	start.Add(1)
	outA := make([][]byte, G)
	// the order in which the goroutines get through their first call is an observable of the
	// schedule: the controller counts distinct orders over all processes
	var finishSeq int64
	finishRank := make([]int64, G)
	for g := 0; g < G; g++ {
		wg.Add(1)
		go func(g int) {
			defer wg.Done()
			start.Wait()
			if seqRef {
				return
			}
			var p edwards25519.Point
			if g%2 == 0 {
				p.ScalarBaseMult(libK)
			} else {
				p.VarTimeDoubleScalarBaseMult(libK, libA, libK)
			}
			outA[g] = p.Bytes()
			finishRank[g] = atomic.AddInt64(&finishSeq, 1)
		}(g)
	}
	if seqRef {
		// sequential reference: same calls, strictly one after the other
		for g := 0; g < G; g++ {
			var p edwards25519.Point
			if g%2 == 0 {
				p.ScalarBaseMult(libK)
			} else {
				p.VarTimeDoubleScalarBaseMult(libK, libA, libK)
			}
			outA[g] = p.Bytes()
		}
	}
	start.Done()
	wg.Wait()
	nBase, nDouble := int64(0), int64(0)
	for g := 0; g < G; g++ {
		want := encBase
		if g%2 == 1 {
			want = encDouble
			nDouble++
		} else {
			nBase++
		}
		c.Eval(true, []byte("first-use"), []byte{byte(g), byte(G)}, want)
		if string(outA[g]) != string(want) {
			c.Fail("concurrent first-use call returned a wrong result", map[string]any{"goroutine": g, "goroutines": G, "kind": g % 2, "got": hx(outA[g]), "want": hx(want), "delays": delays})
		}
	}
	if !seqRef {
		order := make([]byte, G)
		for g := 0; g < G; g++ {
			if r := finishRank[g]; r >= 1 && int(r) <= G {
				order[r-1] = byte(g)
			}
		}
		c.Res.Extra["first-use completion order"] = fmt.Sprintf("G=%d:%x", G, order)
	}
	cA := countsSnapshot()
	// warm per-call costs, same scalar
	var p edwards25519.Point
	p.ScalarBaseMult(libK)
	c1 := countsSnapshot()
	p.VarTimeDoubleScalarBaseMult(libK, libA, libK)
	c2 := countsSnapshot()
	if CountsAvailable {
		// construction-only entry counts: V = C_A - nBase*d1 - nDouble*d2 - (Bytes calls)
		// Bytes() is called once per goroutine in phase A; measure its cost too.
		p.Bytes()
		c3 := countsSnapshot()
		V := map[string]int64{}
		nBytes := int64(G)
		for i := range cA {
			v := cA[i] - nBase*(c1[i]-cA[i]) - nDouble*(c2[i]-c1[i]) - nBytes*(c3[i]-c2[i])
			if v != 0 {
				V[fmt.Sprintf("%d %s", i, siteName(i))] = v
			}
		}
		c.Res.Extra["construction-only-counts"] = V
		for _, s := range onceLitSites() {
			n := cA[s]
			c.Tally("once-literal entries observed")
			if n > 1 {
				c.Fail("a sync.Once body ran more than once in one process", map[string]any{"site": siteName(int(s)), "entries": n, "goroutines": G, "delays": delays})
			}
		}
		contended := false
		for _, s := range onceHostSites() {
			m := maxInflight(s)
			c.Max("max goroutines simultaneously inside a function with a Once.Do ("+siteName(int(s))+")", uint64(m))
			if m >= 2 {
				contended = true
			}
		}
		if contended {
			c.Tally("processes with a contended first use (>=2 goroutines inside the once host at a time)")
		}
	} else {
		c.Inconclusive("entry counters not available in this build: exactly-once is observed through results and the race detector only")
	}

	// ---- phase B: shared read-only operands, private receivers (W2), and own copies mutated (W3)
	sharedE0, _ := r.RandRepr(r.BigBelow(ref.P))
	sharedF0 := gen.Canon(r.BigBelow(ref.P))
	wide0 := r.Bytes(64)
	type shared struct {
		S, S2   *edwards25519.Scalar
		P, Q    *edwards25519.Point
		E, F    *field.Element
		Bytes   []byte
		Wide    []byte
		scalars []*edwards25519.Scalar
		points  []*edwards25519.Point
		longS   []*edwards25519.Scalar // 12 terms: calls of different lengths follow one another
		longP   []*edwards25519.Point
		// templates that have already been receivers of every kind of multiplication: each
		// goroutine's private receiver is a plain Go copy (v := *tmpl) of them, i.e. a distinct
		// value that shares whatever the type keeps behind pointers
		tmplP *edwards25519.Point
		tmplS *edwards25519.Scalar
		tmplE *field.Element
	}
	pcB := r.Point()
	if !validPoint(r, &pcB) {
		pcB.P, pcB.M = edwards25519.NewGeneratorPoint(), ref.Base()
	}
	// both shared points come out of arithmetic or a rescaling at least half of the time, so
	// that they are in a general projective representation (Z != 1, unreduced limbs)
	if r.Bool() {
		pcB.P, _ = r.LibPoint(pcB.M, 3+r.Intn(2))
		if pcB.P == nil {
			pcB.P, _ = r.LibPoint(pcB.M, 4)
		}
	}
	mk := func() *shared {
		sh := &shared{S: gen.LibScalar(k0), S2: gen.LibScalar(ref.SAdd(k0, big.NewInt(77)))}
		sh.P = new(edwards25519.Point).Set(pcB.P)
		sh.Q = new(edwards25519.Point).Add(libA, edwards25519.NewIdentityPoint()) // Z != 1
		sh.E = new(field.Element).Set(sharedE0)
		sh.F = new(field.Element).Set(sharedF0)
		sh.Bytes = append([]byte(nil), encOf(pcB.M)...)
		sh.Wide = append([]byte(nil), wide0...)
		sh.scalars = []*edwards25519.Scalar{sh.S, sh.S2, sh.S}
		sh.points = []*edwards25519.Point{sh.P, sh.Q, sh.P}
		// the templates are warmed on private operands only: the shared objects must reach the
		// concurrent phase untouched (whatever an operation does to an argument on first use
		// has to happen there, under several goroutines)
		ps, pp, pq := gen.LibScalar(k0), new(edwards25519.Point).Set(pcB.P), new(edwards25519.Point).Add(libA, edwards25519.NewIdentityPoint())
		pe := new(field.Element).Set(sharedE0)
		sh.tmplP = new(edwards25519.Point).ScalarBaseMult(ps)
		sh.tmplP.ScalarMult(ps, sh.tmplP)
		sh.tmplP.VarTimeDoubleScalarBaseMult(ps, sh.tmplP, ps)
		sh.tmplP.MultiScalarMult([]*edwards25519.Scalar{ps, ps}, []*edwards25519.Point{pp, pq})
		sh.tmplP.VarTimeMultiScalarMult([]*edwards25519.Scalar{ps, ps}, []*edwards25519.Point{pp, pq})
		sh.tmplP.Bytes()
		sh.tmplP.BytesMontgomery()
		sh.tmplS = new(edwards25519.Scalar).MultiplyAdd(ps, ps, ps)
		sh.tmplS.Invert(sh.tmplS)
		sh.tmplS.Bytes()
		sh.tmplE = new(field.Element).Invert(pe)
		sh.tmplE.SqrtRatio(sh.tmplE, pe)
		sh.tmplE.Bytes()
		for i := 0; i < 12; i++ {
			sh.longS = append(sh.longS, []*edwards25519.Scalar{sh.S, sh.S2}[i%2])
			sh.longP = append(sh.longP, []*edwards25519.Point{sh.P, sh.Q, sh.Q}[i%3])
		}
		return sh
	}
	transcript := func(sh *shared) string {
		sharedS, sharedS2, sharedP, sharedQ, sharedE, sharedF, sharedBytes, sharedWide, scalars, points := sh.S, sh.S2, sh.P, sh.Q, sh.E, sh.F, sh.Bytes, sh.Wide, sh.scalars, sh.points
		var sb strings.Builder
		v := *sh.tmplP // private receiver: a copy by value of a used object
		sb.Write(v.Add(sharedP, sharedQ).Bytes())
		sb.Write(v.Subtract(sharedP, sharedQ).Bytes())
		sb.Write(v.Negate(sharedP).Bytes())
		sb.Write(v.MultByCofactor(sharedQ).Bytes())
		sb.Write(v.ScalarMult(sharedS, sharedP).Bytes())
		sb.Write(v.ScalarBaseMult(sharedS).Bytes())
		sb.Write(v.VarTimeDoubleScalarBaseMult(sharedS, sharedP, sharedS2).Bytes())
		sb.Write(v.MultiScalarMult(scalars, points).Bytes())
		sb.Write(v.VarTimeMultiScalarMult(scalars, points).Bytes())
		// calls of different lengths in a row (scratch that is recycled between calls is sized
		// by the longest one)
		sb.Write(v.VarTimeMultiScalarMult(sh.longS[:12], sh.longP[:12]).Bytes())
		sb.Write(v.VarTimeMultiScalarMult(sh.longS[:2], sh.longP[:2]).Bytes())
		sb.Write(v.MultiScalarMult(sh.longS[:9], sh.longP[:9]).Bytes())
		sb.Write(v.MultiScalarMult(sh.longS[:1], sh.longP[:1]).Bytes())
		sb.Write(v.VarTimeMultiScalarMult(sh.longS[:1], sh.longP[:1]).Bytes())
		sb.Write(v.VarTimeMultiScalarMult(nil, nil).Bytes())
		sb.Write([]byte{byte(sharedP.Equal(sharedQ)), byte(sharedP.Equal(sharedP))})
		sb.Write(sharedP.Bytes())
		sb.Write(sharedQ.Bytes())
		sb.Write(sharedP.BytesMontgomery())
		sb.Write(sharedQ.BytesMontgomery())
		X, Y, Z, T := sharedP.ExtendedCoordinates()
		sb.Write(X.Bytes())
		sb.Write(T.Bytes())
		if q, err := new(edwards25519.Point).SetExtendedCoordinates(X, Y, Z, T); err == nil {
			sb.Write(q.Bytes())
		}
		if q, err := new(edwards25519.Point).SetBytes(sharedBytes); err == nil {
			sb.Write(q.Bytes())
		}
		s := *sh.tmplS
		sb.Write(s.Add(sharedS, sharedS2).Bytes())
		sb.Write(s.Multiply(sharedS, sharedS2).Bytes())
		sb.Write(s.MultiplyAdd(sharedS, sharedS2, sharedS).Bytes())
		sb.Write(s.Invert(sharedS).Bytes())
		sb.Write(s.Negate(sharedS).Bytes())
		sb.Write([]byte{byte(sharedS.Equal(sharedS2))})
		sb.Write(sharedS.Bytes())
		if t, err := new(edwards25519.Scalar).SetUniformBytes(sharedWide); err == nil {
			sb.Write(t.Bytes())
		}
		if t, err := new(edwards25519.Scalar).SetBytesWithClamping(sharedBytes); err == nil {
			sb.Write(t.Bytes())
		}
		e := *sh.tmplE
		sb.Write(e.Add(sharedE, sharedF).Bytes())
		sb.Write(e.Multiply(sharedE, sharedF).Bytes())
		sb.Write(e.Square(sharedE).Bytes())
		sb.Write(e.Invert(sharedE).Bytes())
		sb.Write(e.Mult32(sharedE, 0xfffffff1).Bytes())
		sb.Write(e.Select(sharedE, sharedF, 1).Bytes())
		rr, wq := e.SqrtRatio(sharedE, sharedF)
		sb.Write(rr.Bytes())
		sb.Write([]byte{byte(wq), byte(sharedE.Equal(sharedF)), byte(sharedE.IsNegative())})
		sb.Write(sharedE.Bytes())
		if t, err := new(field.Element).SetWideBytes(sharedWide); err == nil {
			sb.Write(t.Bytes())
		}
		// own copies obtained from constructors are mutated freely (W3)
		g := edwards25519.NewGeneratorPoint()
		g.Add(g, g)
		id := edwards25519.NewIdentityPoint()
		id.Set(g)
		b := sharedP.Bytes()
		b[0] ^= 0xff
		sb.Write(g.Bytes())
		return sb.String()
	}
	// the sequential reference runs on private deep copies: the shared objects are first
	// touched by the concurrent goroutines (a lazy write into a "read-only" argument happens
	// on first use)
	wantT := transcript(mk())
	sharedObjs := mk()
	// model check of a few entries so that the reference itself is anchored
	if !strings.HasPrefix(wantT, string(encOf(ref.Add(pcB.M, A)))) {
		c.Fail("sequential reference transcript differs from the model", nil)
	}
	rounds := 3
	if c.Thorough() {
		rounds = 10
	}
	gotT := make([]string, G)
	var start2 sync.WaitGroup
	start2.Add(1)
	for g := 0; g < G; g++ {
		wg.Add(1)
		go func(g int) {
			defer wg.Done()
			start2.Wait()
			for k := 0; k < rounds; k++ {
				t := transcript(sharedObjs)
				if k == 0 || t != wantT {
					gotT[g] = t
				}
			}
		}(g)
	}
	start2.Done()
	wg.Wait()
	for g := 0; g < G; g++ {
		c.Eval(true, []byte("shared-operands"), []byte{byte(g), byte(G)}, []byte(wantT[:64]))
		c.TallyN("concurrent operation calls on shared read-only operands", int64(rounds*46))
		if gotT[g] != wantT {
			c.Fail("a concurrent call on shared read-only operands returned something else than sequentially", map[string]any{"goroutine": g, "goroutines": G})
		}
	}
	countMode(false)
	if GlobalsAvailable {
		c.Res.Extra["final-globals-digest"] = digestsHex(GlobalsDigests())
	}
	c.Sample(fmt.Sprintf("G=%d delays=%v", G, delays), map[string]any{"goroutines": G, "delays": delays, "k": intHex(k0), "first-use result": hx(encBase)})
	_ = time.Now
}
