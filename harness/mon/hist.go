package mon

import (
	"fmt"
	"math/big"
	"unsafe"

	"filippo.io/edwards25519"
	"filippo.io/edwards25519/field"
	"verifharness/gen"
	"verifharness/raw"
	"verifharness/ref"
)

// history is a program over a pool of Points and Scalars executed on the real objects and
// on the shadow model at the same time.
type history struct {
	c     *Ctx
	r     *gen.Rand
	pts   []*edwards25519.Point
	mpts  []ref.Pt
	scs   []*edwards25519.Scalar
	msc   []*big.Int
	log   []string
	nstep int
	dead  bool

	globals globalsSnapshot
	// purity memo: operation+argument values -> output bytes
	memo map[string]string
	// previously returned values kept for scribbling (C19)
	retBytes [][]byte
	retElems []*field.Element
	retPts   []*edwards25519.Point
	retScs   []*edwards25519.Scalar
	scribble bool
}

func newHistory(c *Ctx, r *gen.Rand, np, ns int) *history {
	h := &history{c: c, r: r, memo: map[string]string{}}
	for i := 0; i < np; i++ {
		pc := r.Point()
		if !validPoint(r, &pc) {
			pc.P, pc.M = edwards25519.NewGeneratorPoint(), ref.Base()
		}
		h.pts = append(h.pts, pc.P)
		h.mpts = append(h.mpts, pc.M)
		h.log = append(h.log, fmt.Sprintf("p%d := %s via %s", i, ptHex(pc.M), pc.Build))
	}
	for i := 0; i < ns; i++ {
		sc := r.Scalar()
		h.scs = append(h.scs, gen.LibScalar(sc.K))
		h.msc = append(h.msc, sc.K)
		h.log = append(h.log, fmt.Sprintf("s%d := %s", i, intHex(sc.K)))
	}
	return h
}

func (h *history) det(extra map[string]any) map[string]any {
	l := h.log
	if len(l) > 60 {
		l = append(append([]string{}, l[:12]...), l[len(l)-48:]...)
	}
	m := map[string]any{"history": l, "step": h.nstep}
	for k, v := range extra {
		m[k] = v
	}
	return m
}

func (h *history) snapshot() ([]string, []string) {
	ps := make([]string, len(h.pts))
	for i, p := range h.pts {
		ps[i] = raw.PointSnap(p)
	}
	ss := make([]string, len(h.scs))
	for i, s := range h.scs {
		ss[i] = raw.ScalarSnap(s)
	}
	return ps, ss
}

// pure records an (operation, argument values) -> output observation and compares with any
// earlier one: operations are pure functions of their argument values.
func (h *history) pure(key string, out []byte) {
	if prev, ok := h.memo[key]; ok {
		h.c.Tally("purity re-observations")
		if prev != string(out) {
			h.c.Fail("same operation on equal argument values gave different output at two points of a history", h.det(map[string]any{"operation": key, "before": hx([]byte(prev)), "now": hx(out)}))
			h.dead = true
		}
		return
	}
	if len(h.memo) < 4096 {
		h.memo[key] = string(out)
	}
}

// step executes one random operation. Point-producing operations write into a receiver
// slot that may alias an argument or be a fresh zero value.
func (h *history) step() {
	c, r := h.c, h.r
	h.nstep++
	np := len(h.pts)
	a, b := r.Intn(np), r.Intn(np)
	si, sj := r.Intn(len(h.scs)), r.Intn(len(h.scs))
	// receiver: existing slot (possibly an argument) or a fresh zero value replacing a slot
	dst := r.Intn(np)
	fresh := r.Chance(1, 3)
	var recv *edwards25519.Point
	if fresh {
		recv = new(edwards25519.Point)
	} else {
		recv = h.pts[dst]
	}
	rname := fmt.Sprintf("p%d", dst)
	if fresh {
		rname += "(fresh)"
	}
	psBefore, ssBefore := h.snapshot()
	var want ref.Pt
	var ret *edwards25519.Point
	var desc, pkey string
	producing := true
	failed := false
	op := r.Intn(22)
	pv := catch(func() {
		switch op {
		case 0, 1:
			desc = fmt.Sprintf("%s = Add(p%d,p%d)", rname, a, b)
			want = ref.Add(h.mpts[a], h.mpts[b])
			pkey = "Add|" + ptHex(h.mpts[a]) + "|" + ptHex(h.mpts[b])
			ret = recv.Add(h.pts[a], h.pts[b])
		case 2:
			desc = fmt.Sprintf("%s = Subtract(p%d,p%d)", rname, a, b)
			want = ref.Sub(h.mpts[a], h.mpts[b])
			pkey = "Subtract|" + ptHex(h.mpts[a]) + "|" + ptHex(h.mpts[b])
			ret = recv.Subtract(h.pts[a], h.pts[b])
		case 3:
			desc = fmt.Sprintf("%s = Negate(p%d)", rname, a)
			want = ref.Neg(h.mpts[a])
			pkey = "Negate|" + ptHex(h.mpts[a])
			ret = recv.Negate(h.pts[a])
		case 4:
			desc = fmt.Sprintf("%s = MultByCofactor(p%d)", rname, a)
			want = ref.Mul(big.NewInt(8), h.mpts[a])
			pkey = "MultByCofactor|" + ptHex(h.mpts[a])
			ret = recv.MultByCofactor(h.pts[a])
		case 5, 6:
			desc = fmt.Sprintf("%s = ScalarMult(s%d,p%d)", rname, si, a)
			want = ref.Mul(h.msc[si], h.mpts[a])
			pkey = "ScalarMult|" + intHex(h.msc[si]) + "|" + ptHex(h.mpts[a])
			ret = recv.ScalarMult(h.scs[si], h.pts[a])
		case 7:
			desc = fmt.Sprintf("%s = ScalarBaseMult(s%d)", rname, si)
			want = ref.Mul(h.msc[si], ref.Base())
			pkey = "ScalarBaseMult|" + intHex(h.msc[si])
			ret = recv.ScalarBaseMult(h.scs[si])
		case 8:
			desc = fmt.Sprintf("%s = VarTimeDoubleScalarBaseMult(s%d,p%d,s%d)", rname, si, a, sj)
			want = ref.Add(ref.Mul(h.msc[si], h.mpts[a]), ref.Mul(h.msc[sj], ref.Base()))
			ret = recv.VarTimeDoubleScalarBaseMult(h.scs[si], h.pts[a], h.scs[sj])
		case 9, 10, 11:
			nn := r.Intn(4)
			var ss []*edwards25519.Scalar
			var pp []*edwards25519.Point
			want = ref.Identity()
			desc = fmt.Sprintf("%s = %s(", rname, map[bool]string{true: "VarTimeMultiScalarMult", false: "MultiScalarMult"}[op == 11])
			for k := 0; k < nn; k++ {
				x, y := r.Intn(len(h.scs)), r.Intn(np)
				ss = append(ss, h.scs[x])
				pp = append(pp, h.pts[y])
				want = ref.Add(want, ref.Mul(h.msc[x], h.mpts[y]))
				desc += fmt.Sprintf("s%d*p%d ", x, y)
			}
			desc += ")"
			if op == 11 {
				ret = recv.VarTimeMultiScalarMult(ss, pp)
			} else {
				ret = recv.MultiScalarMult(ss, pp)
			}
		case 12:
			want = h.mpts[a]
			if r.Bool() {
				desc = fmt.Sprintf("%s = Set(p%d)", rname, a)
				ret = recv.Set(h.pts[a])
			} else {
				// the types are plain values: a copy by assignment is a distinct, equal value
				desc = fmt.Sprintf("%s = value copy of p%d (plain assignment)", rname, a)
				*recv = *h.pts[a]
				ret = recv
			}
		case 13: // decode: valid canonical / non-canonical / invalid (receiver must stay)
			m, _ := r.ModelPoint()
			enc := encOf(m)
			kind := r.Intn(4)
			if kind == 1 {
				if nb := gen.NonCanonBytes(m.Y); nb != nil {
					nb[31] |= enc[31] & 0x80
					enc = nb
				}
			}
			if kind == 2 {
				enc = invalidPointEncoding(r)
			}
			if kind == 3 {
				enc = enc[:31]
			}
			desc = fmt.Sprintf("%s.SetBytes(%s)", rname, hx(enc))
			var err error
			ret, err = recv.SetBytes(enc)
			if wm, ok := ref.Decode(enc); ok {
				want = wm
				if err != nil {
					panic("valid encoding rejected")
				}
			} else {
				failed = true
				if err == nil || ret != nil {
					panic("invalid encoding accepted")
				}
			}
		case 14: // re-import own coordinates rescaled
			lam := r.BigBelow(ref.P)
			if lam.Sign() == 0 {
				lam = big.NewInt(1)
			}
			X, Y, Z, T := gen.ExtOf(h.mpts[a], lam)
			bad := r.Chance(1, 4)
			if bad {
				Z = big.NewInt(0)
				if r.Bool() {
					X, Y, T = big.NewInt(0), big.NewInt(0), big.NewInt(0)
				}
			}
			ex, _ := r.RandRepr(X)
			ey, _ := r.RandRepr(Y)
			ez, _ := r.RandRepr(Z)
			et, _ := r.RandRepr(T)
			desc = fmt.Sprintf("%s.SetExtendedCoordinates(rescaled p%d, invalid=%v)", rname, a, bad)
			var err error
			ret, err = recv.SetExtendedCoordinates(ex, ey, ez, et)
			if bad {
				failed = true
				if err == nil || ret != nil {
					panic("invalid coordinates accepted")
				}
			} else {
				want = h.mpts[a]
				if err != nil {
					panic("valid coordinates rejected")
				}
			}
		case 15:
			desc = fmt.Sprintf("%s = NewIdentityPoint/NewGeneratorPoint", rname)
			if r.Bool() {
				recv, want = edwards25519.NewIdentityPoint(), ref.Identity()
			} else {
				recv, want = edwards25519.NewGeneratorPoint(), ref.Base()
			}
			ret = recv
			if h.scribble {
				// keep separate constructor results (not pool members) for later mutation
				h.retPts = append(h.retPts, edwards25519.NewIdentityPoint(), edwards25519.NewGeneratorPoint())
			}
		case 16: // scalar arithmetic into a scalar slot
			d := r.Intn(len(h.scs))
			switch r.Intn(5) {
			case 0:
				h.scs[d].Add(h.scs[si], h.scs[sj])
				h.msc[d] = ref.SAdd(h.msc[si], h.msc[sj])
			case 1:
				h.scs[d].Multiply(h.scs[si], h.scs[sj])
				h.msc[d] = ref.SMul(h.msc[si], h.msc[sj])
			case 2:
				h.scs[d].Negate(h.scs[si])
				h.msc[d] = ref.SNeg(h.msc[si])
			case 3:
				h.scs[d].MultiplyAdd(h.scs[si], h.scs[sj], h.scs[d])
				h.msc[d] = ref.SAdd(ref.SMul(h.msc[si], h.msc[sj]), h.msc[d])
			default:
				h.scs[d].Invert(h.scs[si])
				h.msc[d] = ref.SInv(h.msc[si])
			}
			desc = fmt.Sprintf("s%d = scalar-op(s%d,s%d)", d, si, sj)
			producing = false
			ssBefore[d] = raw.ScalarSnap(h.scs[d])
			kb := ref.IntToLE32(h.msc[d])
			if string(h.scs[d].Bytes()) != string(kb[:]) {
				panic("scalar operation result differs from the model")
			}
		case 17: // readers
			producing = false
			desc = fmt.Sprintf("Equal(p%d,p%d)", a, b)
			got := h.pts[a].Equal(h.pts[b])
			wantEq := 0
			if h.mpts[a].Eq(h.mpts[b]) {
				wantEq = 1
			}
			if got != wantEq {
				panic(fmt.Sprintf("Equal returned %d, model says %d", got, wantEq))
			}
		case 18:
			producing = false
			desc = fmt.Sprintf("Bytes(p%d)", a)
			out := h.pts[a].Bytes()
			if string(out) != string(encOf(h.mpts[a])) {
				panic("Bytes differs from the model")
			}
			h.pure("Bytes:"+string(encOf(h.mpts[a])), out)
			if h.scribble {
				h.retBytes = append(h.retBytes, out)
			}
		case 19:
			producing = false
			desc = fmt.Sprintf("BytesMontgomery(p%d)", a)
			out := h.pts[a].BytesMontgomery()
			w := ref.Montgomery(h.mpts[a])
			if string(out) != string(w[:]) {
				panic("BytesMontgomery differs from the model")
			}
			if h.scribble {
				h.retBytes = append(h.retBytes, out)
			}
		case 20:
			producing = false
			desc = fmt.Sprintf("ExtendedCoordinates(p%d)", a)
			X, Y, Z, T := h.pts[a].ExtendedCoordinates()
			if !ref.ExtValid(feVal(X), feVal(Y), feVal(Z), feVal(T)) || !ref.ExtAffine(feVal(X), feVal(Y), feVal(Z)).Eq(h.mpts[a]) {
				panic("ExtendedCoordinates differ from the model")
			}
			if h.scribble {
				// field-level Bytes results are returned values too
				eb1, eb2 := X.Bytes(), X.Bytes()
				if &eb1[0] == &eb2[0] {
					panic("two Element.Bytes results share memory")
				}
				h.retBytes = append(h.retBytes, eb1)
				h.retElems = append(h.retElems, X, Y, Z, T)
				// the returned Elements must not point into the Point
				base := uintptr(unsafe.Pointer(h.pts[a]))
				for _, e := range []*field.Element{X, Y, Z, T} {
					if p := uintptr(unsafe.Pointer(e)); p >= base && p < base+160 {
						panic("ExtendedCoordinates returned a pointer into the Point")
					}
				}
			}
		default:
			producing = false
			desc = fmt.Sprintf("Scalar.Bytes(s%d)", si)
			out := h.scs[si].Bytes()
			kb := ref.IntToLE32(h.msc[si])
			if string(out) != string(kb[:]) {
				panic("Scalar.Bytes differs from the model")
			}
			if h.scribble {
				h.retBytes = append(h.retBytes, out)
			}
		}
	})
	h.log = append(h.log, desc)
	c.Eval(true, []byte(desc), []byte(psBefore[a]), []byte(psBefore[b]), []byte(ssBefore[si]))
	c.Tally("step:" + stepKind(desc))
	if pv != nil {
		c.Fail("history step failed", h.det(map[string]any{"panic-or-mismatch": pv}))
		h.dead = true
		return
	}
	if producing && !failed {
		if ret != recv {
			c.Fail("returned pointer is not the receiver", h.det(nil))
		}
		why, st := checkPoint(recv, want)
		if why != "" {
			c.Fail("reachable Point is invalid or differs from the model", h.det(map[string]any{"why": why, "got": hx(st.Enc), "want": ptHex(want)}))
			h.dead = true
			return
		}
		c.checkPointLimbs(recv, "history")
		if pkey != "" {
			h.pure(pkey, st.Enc)
		}
		h.pts[dst] = recv
		h.mpts[dst] = want
		psBefore[dst] = ""
	} else if producing && failed && !fresh {
		// failed setter: receiver untouched (raw)
		if raw.PointSnap(recv) != psBefore[dst] {
			c.Fail("failed setter changed the receiver", h.det(nil))
		}
	}
	// the receiver of a reading step (Equal, Bytes, BytesMontgomery, ExtendedCoordinates) need
	// not stay bit-for-bit the same, but it must remain a valid representation of its point
	if op >= 17 && op <= 20 {
		psBefore[a] = ""
		if why, _ := checkPoint(h.pts[a], h.mpts[a]); why != "" {
			c.Fail("a reading operation left its receiver invalid or changed its value", h.det(map[string]any{"why": why, "slot": a}))
			h.dead = true
			return
		}
	}
	// every slot that is not the receiver is bit-for-bit unchanged
	psAfter, ssAfter := h.snapshot()
	for i := range psAfter {
		if psBefore[i] != "" && psAfter[i] != psBefore[i] {
			c.Fail("a Point that is not the receiver was modified", h.det(map[string]any{"slot": i}))
			h.dead = true
		}
	}
	for i := range ssAfter {
		if ssAfter[i] != ssBefore[i] {
			c.Fail("a Scalar argument was modified", h.det(map[string]any{"slot": i}))
			h.dead = true
		}
	}
	if h.nstep%16 == 0 {
		h.sweep()
	}
}

func stepKind(desc string) string {
	for _, k := range []string{"Add", "Subtract", "Negate", "MultByCofactor", "VarTimeDoubleScalarBaseMult", "VarTimeMultiScalarMult", "MultiScalarMult", "ScalarBaseMult(", "ScalarMult(", "Set(", "value copy", "SetBytes", "SetExtendedCoordinates", "NewIdentityPoint", "scalar-op", "Equal", "BytesMontgomery", "Scalar.Bytes", "Bytes", "ExtendedCoordinates"} {
		for i := 0; i+len(k) <= len(desc); i++ {
			if desc[i:i+len(k)] == k {
				return k
			}
		}
	}
	return "other"
}

// sweep: Equal of every pool member against every other must match the model, and the
// package-level state must be what it was after warm-up.
func (h *history) sweep() {
	c := h.c
	for i := range h.pts {
		for j := range h.pts {
			if i == j {
				continue
			}
			var got int
			if pv := catch(func() { got = h.pts[i].Equal(h.pts[j]) }); pv != nil {
				c.Fail("Equal panicked on reachable points", h.det(map[string]any{"panic": pv}))
				h.dead = true
				return
			}
			want := 0
			if h.mpts[i].Eq(h.mpts[j]) {
				want = 1
			}
			c.Tally("equal-sweep comparisons")
			if got != want {
				c.Fail("a reachable Point compares Equal to an unrelated point (or unequal to itself)", h.det(map[string]any{"i": i, "j": j, "got": got}))
				h.dead = true
				return
			}
		}
	}
	if h.globals != nil {
		c.checkGlobals(h.globals, "during history")
	}
}
