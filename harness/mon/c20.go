package mon

import (
	"crypto/sha256"
	"encoding/hex"
	"fmt"
	"math/big"
	"syscall"
	"unsafe"

	"filippo.io/edwards25519"
	"filippo.io/edwards25519/field"
	"verifharness/gen"
	"verifharness/raw"
	"verifharness/ref"
)

// guardArena is three pages with the outer two PROT_NONE: an Element placed at either edge
// of the middle page faults on any access outside its 40 bytes.
type guardArena struct {
	mem  []byte
	page int
}

func newGuardArena() (*guardArena, error) {
	pg := syscall.Getpagesize()
	mem, err := syscall.Mmap(-1, 0, 3*pg, syscall.PROT_READ|syscall.PROT_WRITE, syscall.MAP_ANON|syscall.MAP_PRIVATE)
	if err != nil {
		return nil, err
	}
	if err := syscall.Mprotect(mem[:pg], syscall.PROT_NONE); err != nil {
		return nil, err
	}
	if err := syscall.Mprotect(mem[2*pg:], syscall.PROT_NONE); err != nil {
		return nil, err
	}
	return &guardArena{mem: mem, page: pg}, nil
}

// readOnly makes the accessible page read-only (true) or read-write again (false): while it is
// read-only any store into it - even one that is undone straight afterwards - is a fault.
func (g *guardArena) readOnly(ro bool) error {
	prot := syscall.PROT_READ | syscall.PROT_WRITE
	if ro {
		prot = syscall.PROT_READ
	}
	return syscall.Mprotect(g.mem[g.page:2*g.page], prot)
}

// at returns an Element at the end (true) or the start (false) of the accessible page.
func (g *guardArena) at(end bool) *field.Element {
	off := g.page
	if end {
		off = 2*g.page - 40
	}
	return (*field.Element)(unsafe.Pointer(&g.mem[off]))
}

// C20: optimised and portable field implementations agree. The same monitor runs in the
// default and in the purego build; the controller compares the per-chunk transcripts.
func C20(c *Ctx) {
	if !raw.ElementOK() {
		c.Inconclusive("raw layout guard failed: limbs not observed")
	}
	var arenas [3]*guardArena
	for i := range arenas {
		a, err := newGuardArena()
		if err != nil {
			c.Inconclusive("guard pages unavailable: " + err.Error())
			arenas[0] = nil
			break
		}
		arenas[i] = a
	}
	chunks := map[string][2]string{}
	n := c.N(4000, 200000)
	for i := int64(0); i < n; i++ {
		if !c.Mine(i) {
			continue
		}
		r := c.Begin(i)
		vh, lh := sha256.New(), sha256.New()
		// (1) Multiply/Square on limb-maximising operands: oracle + bound in this build
		for k := 0; k < 24; k++ {
			a := drawFe(r, k%2 == 0)
			b := drawFe(r, k%3 == 0)
			if k%8 == 7 {
				b = a
			}
			det := func() map[string]any {
				return map[string]any{"a": intHex(a.v), "a-repr": a.desc, "a-limbs": a.limbs(), "b": intHex(b.v), "b-repr": b.desc, "b-limbs": b.limbs(), "build": c.Config}
			}
			ab, bb := ref.FeBytes(a.v), ref.FeBytes(b.v)
			al, bl := rawOr(a.e), rawOr(b.e)
			m, sq2 := new(field.Element), new(field.Element)
			// callee-saved register discipline of the (assembly) implementation: Multiply and
			// Square are tiny wrappers that the compiler inlines here, so the assembly is called
			// from this very frame and BP must read the same before and after
			// BP is the frame pointer of this frame. Its absolute value legitimately changes when
			// the runtime moves the goroutine stack (growth inside the callee, shrinking at a GC),
			// so it is observed relative to the address of a local of this frame, which moves
			// with it; a routine that clobbers BP changes the difference.
			var anchor [1]uint64
			rel := func(bp uintptr) uintptr {
				if !bpAvailable {
					return 0 // no frame-pointer register to observe in this build
				}
				return bp - uintptr(unsafe.Pointer(&anchor))
			}
			bp0 := rel(getBP())
			m.Multiply(a.e, b.e)
			bp1 := rel(getBP())
			sq2.Square(a.e)
			bp2 := rel(getBP())
			anchor[0]++
			if bp0 != bp1 || bp0 != bp2 {
				c.Fail("frame-pointer register (BP) not preserved across Multiply/Square: a frame-pointer unwind (execution tracer, block/mutex profile) would crash in one build only", map[string]any{"before": bp0, "after-Multiply": bp1, "after-Square": bp2, "build": c.Config})
			}
			c.Tally("callee-saved register (BP) observations")
			c.Eval(true, []byte("Multiply"), ab[:], bb[:], al[:], bl[:])
			c.checkFe(m, ref.FMul(a.v, b.v), "Multiply", det)
			s := new(field.Element).Square(a.e)
			c.Eval(true, []byte("Square"), ab[:], al[:])
			c.checkFe(s, ref.FSqr(a.v), "Square", det)
			vh.Write(m.Bytes())
			vh.Write(s.Bytes())
			ml, sl := rawOr(m), rawOr(s)
			lh.Write(ml[:])
			lh.Write(sl[:])
			c.Tally("Multiply/Square pairs")
			// (3) guard pages: all aliasing patterns, operands at both page edges
			if arenas[0] != nil && k%4 == 0 {
				end := k%8 == 0
				out, x, y := arenas[0].at(end), arenas[1].at(end), arenas[2].at(!end)
				*x, *y = *a.e, *b.e
				pat := (k / 4) % 5
				switch pat {
				case 0:
					out.Multiply(x, y)
				case 1: // out = a
					*out = *a.e
					out.Multiply(out, y)
				case 2: // out = b
					*out = *b.e
					out.Multiply(x, out)
				case 3: // a = b
					out.Multiply(x, x)
				default: // all equal
					*out = *a.e
					out.Multiply(out, out)
				}
				var want *big.Int
				switch pat {
				case 0, 1, 2:
					want = ref.FMul(a.v, b.v)
				default:
					want = ref.FSqr(a.v)
				}
				c.checkFe(out, want, "Multiply on guard-page operands", det)
				out2 := arenas[0].at(!end)
				x2 := arenas[1].at(!end)
				*x2 = *a.e
				if pat%2 == 0 {
					out2.Square(x2)
				} else {
					*out2 = *a.e
					out2.Square(out2)
				}
				c.checkFe(out2, ref.FSqr(a.v), "Square on guard-page operands", det)
				c.Tally("guard-page placements")
				c.Eval(true, []byte("guard"), al[:], bl[:], []byte{byte(pat)})
			}
		}
		// (2) whole-library clause: a deterministic public-API program; value-level outputs only
		c.apiChunk(r, vh)
		chunks[fmt.Sprint(i)] = [2]string{hex.EncodeToString(vh.Sum(nil)[:12]), hex.EncodeToString(lh.Sum(nil)[:12])}
		c.Sample("chunk", map[string]any{"chunk": i, "build": c.Config, "value-transcript": hex.EncodeToString(vh.Sum(nil)[:12])})
	}
	c.Res.Extra["chunks"] = chunks
}

// apiChunk runs a deterministic program over the public API and feeds every value-level
// output into h. Inputs depend only on the PRNG (and on value-level library outputs), so the
// transcript must be identical under every build configuration.
func (c *Ctx) apiChunk(r *gen.Rand, h interface{ Write([]byte) (int, error) }) {
	// field
	for k := 0; k < 6; k++ {
		fa, fb := r.FieldValue(), r.FieldValue()
		a, b := gen.Canon(fa.V), gen.Canon(fb.V)
		a2, _ := r.Repr(fa.V, 7+r.Intn(4))
		h.Write(new(field.Element).Invert(a2).Bytes())
		h.Write(new(field.Element).Pow22523(a).Bytes())
		rr, w := new(field.Element).SqrtRatio(a2, b)
		h.Write(rr.Bytes())
		h.Write([]byte{byte(w), byte(a2.Equal(a)), byte(a2.IsNegative())})
		h.Write(new(field.Element).Absolute(new(field.Element).Multiply(a2, b)).Bytes())
		wide, _ := new(field.Element).SetWideBytes(r.Bytes(64))
		h.Write(wide.Bytes())
		c.Eval(true, []byte("api-field"), a.Bytes(), b.Bytes())
	}
	// scalars and points
	pts := make([]*edwards25519.Point, 0, 4)
	ms := make([]ref.Pt, 0, 4)
	for k := 0; k < 3; k++ {
		m, _ := r.ModelPoint()
		p, _ := r.LibPoint(m, r.Intn(4))
		if p == nil {
			p, _ = r.LibPoint(m, 0)
		}
		pts = append(pts, p)
		ms = append(ms, m)
		h.Write(p.Bytes())
		h.Write(p.BytesMontgomery())
	}
	s1, s2 := gen.LibScalar(r.Scalar().K), gen.LibScalar(r.Scalar().K)
	s3, _ := new(edwards25519.Scalar).SetUniformBytes(r.Bytes(64))
	s4, _ := new(edwards25519.Scalar).SetBytesWithClamping(r.Bytes(32))
	h.Write(new(edwards25519.Scalar).MultiplyAdd(s1, s2, s3).Bytes())
	h.Write(new(edwards25519.Scalar).Invert(s4).Bytes())
	outs := []*edwards25519.Point{
		new(edwards25519.Point).Add(pts[0], pts[1]),
		new(edwards25519.Point).Subtract(pts[0], pts[2]),
		new(edwards25519.Point).Negate(pts[1]),
		new(edwards25519.Point).MultByCofactor(pts[2]),
		new(edwards25519.Point).ScalarMult(s1, pts[0]),
		new(edwards25519.Point).ScalarBaseMult(s3),
		new(edwards25519.Point).VarTimeDoubleScalarBaseMult(s2, pts[1], s4),
		new(edwards25519.Point).MultiScalarMult([]*edwards25519.Scalar{s1, s2, s3}, pts),
		new(edwards25519.Point).VarTimeMultiScalarMult([]*edwards25519.Scalar{s4, s3, s1}, pts),
	}
	for _, o := range outs {
		h.Write(o.Bytes())
		h.Write(o.BytesMontgomery())
		X, Y, Z, T := o.ExtendedCoordinates()
		// projective coordinates may legitimately differ in scale between builds only if limb
		// forms differ; their VALUES are determined by the formulas, so they are included
		h.Write(X.Bytes())
		h.Write(Y.Bytes())
		h.Write(Z.Bytes())
		h.Write(T.Bytes())
		h.Write([]byte{byte(o.Equal(pts[0]))})
	}
	// a decode of arbitrary bytes (accept/reject is part of the transcript)
	for k := 0; k < 4; k++ {
		b := r.Bytes(32)
		p, err := new(edwards25519.Point).SetBytes(b)
		if err != nil {
			h.Write([]byte{0})
		} else {
			h.Write(p.Bytes())
		}
	}
	c.Eval(true, []byte("api-points"), pts[0].Bytes(), s1.Bytes())
	c.Tally("api programs")
	// sanity of one output against the model so that a chunk is not only self-consistent
	if why, _ := checkPoint(outs[0], ref.Add(ms[0], ms[1])); why != "" {
		c.Fail("API program output differs from the model", map[string]any{"why": why, "build": c.Config})
	}
}
