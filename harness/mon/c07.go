package mon

import (
	"math/big"

	"filippo.io/edwards25519"
	"verifharness/gen"
	"verifharness/raw"
	"verifharness/ref"
)

var montRinv = new(big.Int).ModInverse(new(big.Int).Lsh(big.NewInt(1), 256), ref.L)

// checkScalar compares a library scalar with the model value, and asserts that the raw
// Montgomery limbs are below l.
func (c *Ctx) checkScalar(s *edwards25519.Scalar, want *big.Int, what string, det func() map[string]any) bool {
	wb := ref.IntToLE32(ref.Sc(want))
	got := s.Bytes()
	ok := true
	if string(got) != string(wb[:]) {
		d := det()
		d["what"], d["got"], d["want"] = what, hx(got), hx(wb[:])
		c.Fail("scalar result differs from Z/l", d)
		ok = false
	}
	if raw.ScalarOK() {
		li := raw.ScalarLimbInt(raw.ScalarLimbs(s))
		if li.Cmp(ref.L) >= 0 {
			d := det()
			d["what"], d["limbs"] = what, intHex(li)
			c.Fail("Montgomery limbs not below l", d)
			ok = false
		}
	} else {
		c.Inconclusive("raw layout guard failed: scalar limbs not observed")
	}
	return ok
}

// C07: scalar arithmetic is Z/l.
func C07(c *Ctx) {
	n := c.N(240000, 96000000) // each case is a batch of operations on one operand triple
	classes := gen.ScalarClasses()
	for i := int64(0); i < n; i++ {
		if !c.Mine(i) {
			continue
		}
		r := c.Begin(i)
		var x, y, z gen.SC
		switch i % 4 {
		case 0: // class x class (x class) enumeration, walking all pairs over the run
			k := int(i / 4)
			x = classes[k%len(classes)]
			y = classes[(k/len(classes)+k*7)%len(classes)]
			z = classes[r.Intn(len(classes))]
		case 1:
			x, y, z = r.Scalar(), r.Scalar(), r.Scalar()
		default:
			x, y, z = r.UniformScalar(), r.Scalar(), r.UniformScalar()
		}
		sx, hx1 := r.LibScalarAlt(x.K)
		sy, _ := r.LibScalarAlt(y.K)
		sz := gen.LibScalar(z.K)
		c.Tally("class:" + x.Class)
		c.Tally("route:" + hx1)
		xb, yb, zb := ref.IntToLE32(x.K), ref.IntToLE32(y.K), ref.IntToLE32(z.K)
		det := func() map[string]any {
			return map[string]any{"x": intHex(x.K), "y": intHex(y.K), "z": intHex(z.K), "x-class": x.Class, "y-class": y.Class}
		}
		nontriv := x.K.BitLen() > 1 && y.K.BitLen() > 1
		ev := func(op string) { c.Eval(nontriv, []byte(op), xb[:], yb[:], zb[:]); c.Tally("op:" + op) }

		v := new(edwards25519.Scalar)
		if v.Add(sx, sy) != v {
			c.Fail("returned pointer is not the receiver", det())
		}
		ev("Add")
		c.checkScalar(v, ref.SAdd(x.K, y.K), "Add", det)
		v = new(edwards25519.Scalar).Subtract(sx, sy)
		ev("Subtract")
		c.checkScalar(v, ref.SSub(x.K, y.K), "Subtract", det)
		v = new(edwards25519.Scalar).Negate(sx)
		ev("Negate")
		c.checkScalar(v, ref.SNeg(x.K), "Negate", det)
		v = new(edwards25519.Scalar).Multiply(sx, sy)
		ev("Multiply")
		c.checkScalar(v, ref.SMul(x.K, y.K), "Multiply", det)
		v = edwards25519.NewScalar().MultiplyAdd(sx, sy, sz)
		ev("MultiplyAdd")
		c.checkScalar(v, ref.SAdd(ref.SMul(x.K, y.K), z.K), "MultiplyAdd", det)
		if i%4 == 0 || i%16 == 1 {
			v = new(edwards25519.Scalar).Invert(sx)
			ev("Invert")
			c.checkScalar(v, ref.SInv(x.K), "Invert", det)
			// independent check: x * x^-1 == 1 (or 0)
			w := new(edwards25519.Scalar).Multiply(v, sx)
			one := big.NewInt(1)
			if x.K.Sign() == 0 {
				one = big.NewInt(0)
			}
			c.checkScalar(w, one, "x*Invert(x)", det)
		}
		// the same object updated in place between two uses as an argument (same pointer,
		// different values): self-contained per case so that a replay reproduces it
		if i%8 == 3 {
			accS := new(edwards25519.Scalar).Set(sx)
			invS := new(edwards25519.Scalar).Invert(accS)
			c.checkScalar(invS, ref.SInv(x.K), "Invert (first use of the object)", det)
			accS.MultiplyAdd(accS, sy, sz)
			accK := ref.SAdd(ref.SMul(x.K, y.K), z.K)
			invS.Invert(accS)
			// involutions applied in place, twice
			yS := new(edwards25519.Scalar).Set(sx)
			yS.Invert(yS)
			yS.Invert(yS)
			c.checkScalar(yS, x.K, "Invert applied twice in place", det)
			yS.Negate(yS)
			yS.Negate(yS)
			c.checkScalar(yS, x.K, "Negate applied twice in place", det)
			ev("in-place-object")
			c.checkScalar(accS, accK, "object updated in place", det)
			c.checkScalar(invS, ref.SInv(accK), "Invert of the same object after an in-place update", det)
		}
		// a scalar with a past: the object is used as a multiplier (which is where an
		// implementation would derive and keep per-object data such as an encoding or a
		// recoding), then assigned through each mutating method in turn; after every assignment
		// its encoding and its use as a multiplier must be those of the new value
		if i%8 == 5 {
			obj := new(edwards25519.Scalar).Set(sx)
			G := edwards25519.NewGeneratorPoint()
			useAsMultiplier := func(k int) *edwards25519.Point {
				switch k % 5 {
				case 0:
					return new(edwards25519.Point).ScalarBaseMult(obj)
				case 1:
					return new(edwards25519.Point).ScalarMult(obj, G)
				case 2:
					return new(edwards25519.Point).VarTimeDoubleScalarBaseMult(obj, G, edwards25519.NewScalar())
				case 3:
					return new(edwards25519.Point).VarTimeDoubleScalarBaseMult(edwards25519.NewScalar(), G, obj)
				default:
					return new(edwards25519.Point).MultiScalarMult([]*edwards25519.Scalar{obj}, []*edwards25519.Point{G})
				}
			}
			cur := new(big.Int).Set(x.K)
			first := r.Intn(5)
			useAsMultiplier(first)
			c.checkScalar(obj, cur, "after use as a multiplier", det)
			steps := 3 + r.Intn(4)
			for st := 0; st < steps; st++ {
				var what string
				switch r.Intn(12) {
				case 0:
					obj.Add(obj, sy)
					cur, what = ref.SAdd(cur, y.K), "Add in place"
				case 1:
					obj.Subtract(sz, obj)
					cur, what = ref.SSub(z.K, cur), "Subtract (receiver = second argument)"
				case 2:
					obj.Negate(obj)
					cur, what = ref.SNeg(cur), "Negate in place"
				case 3:
					obj.Multiply(obj, sy)
					cur, what = ref.SMul(cur, y.K), "Multiply in place"
				case 4:
					obj.MultiplyAdd(sy, sz, obj)
					cur, what = ref.SAdd(ref.SMul(y.K, z.K), cur), "MultiplyAdd (receiver = addend)"
				case 5:
					obj.MultiplyAdd(obj, sy, sz)
					cur, what = ref.SAdd(ref.SMul(cur, y.K), z.K), "MultiplyAdd (receiver = first factor)"
				case 6:
					obj.Invert(obj)
					cur, what = ref.SInv(cur), "Invert in place"
				case 7:
					obj.Set(sz)
					cur, what = new(big.Int).Set(z.K), "Set"
				case 8:
					b := ref.IntToLE32(ref.Sc(y.K))
					obj.SetCanonicalBytes(b[:])
					cur, what = new(big.Int).Set(y.K), "SetCanonicalBytes"
				case 9:
					wide := r.Bytes(64)
					obj.SetUniformBytes(wide)
					cur, what = ref.Sc(ref.LEToInt(wide)), "SetUniformBytes"
				case 10:
					b := r.Bytes(32)
					obj.SetBytesWithClamping(b)
					cur, what = ref.Sc(ref.Clamp(b)), "SetBytesWithClamping"
				default: // a failed setter leaves everything as it was
					bad := ref.IntToLE32(new(big.Int).Add(ref.L, big.NewInt(int64(r.Intn(3)))))
					obj.SetCanonicalBytes(bad[:])
					what = "failed SetCanonicalBytes"
				}
				ev("object-with-a-past:" + what)
				if !c.checkScalar(obj, cur, "object with a past: "+what, det) {
					break
				}
				if st == steps-1 || r.Chance(1, 3) {
					k := r.Intn(5)
					got := useAsMultiplier(k)
					cb := ref.IntToLE32(ref.Sc(cur))
					fresh, err := new(edwards25519.Scalar).SetCanonicalBytes(cb[:])
					if err == nil && got.Equal(new(edwards25519.Point).ScalarBaseMult(fresh)) != 1 {
						d := det()
						d["what"], d["multiplication"], d["value"] = what, k, intHex(cur)
						c.Fail("a scalar assigned in place multiplies as a different value than a fresh scalar of the same value", d)
						break
					}
					c.checkScalar(obj, cur, "object with a past: after use as a multiplier following "+what, det)
				}
			}
		}
		// Equal
		eq := sx.Equal(sy)
		ev("Equal")
		wantEq := 0
		if x.K.Cmp(y.K) == 0 {
			wantEq = 1
		}
		if eq != wantEq {
			d := det()
			d["got"] = eq
			c.Fail("Scalar.Equal wrong", d)
		}
		sx2, _ := r.LibScalarAlt(x.K)
		if e := sx.Equal(sx2); e != 1 {
			d := det()
			d["got"] = e
			c.Fail("Scalar.Equal(x, x) != 1", d)
		}
		ev("Equal-same")
		// single-bit differences in the Montgomery domain: t = x - 2^b * R^-1
		for rep := 0; rep < 4; rep++ {
			b := int((i*4 + int64(rep)) % 253)
			delta := ref.SMul(new(big.Int).Lsh(big.NewInt(1), uint(b)), montRinv)
			t := ref.SSub(x.K, delta)
			st := gen.LibScalar(t)
			e1, e2 := sx.Equal(st), st.Equal(sx)
			c.Eval(true, []byte("Equal-bit"), xb[:], []byte{byte(b)})
			c.Bit("Equal: Montgomery difference 2^b", 253, b)
			if e1 != 0 || e2 != 0 {
				c.Fail("Scalar.Equal returned non-zero for scalars differing by one Montgomery-domain bit", map[string]any{"x": intHex(x.K), "t": intHex(t), "bit": b, "got": []int{e1, e2}})
			}
		}
		// zero value is 0
		if i%64 == 0 {
			var zv edwards25519.Scalar
			c.checkScalar(&zv, big.NewInt(0), "zero value", det)
			c.checkScalar(new(edwards25519.Scalar).Add(&zv, sx), x.K, "0+x with zero value", det)
			c.checkScalar(new(edwards25519.Scalar).Invert(&zv), big.NewInt(0), "Invert(zero value)", det)
			ev("zero-value")
		}
		c.Sample(x.Class, map[string]any{"x": intHex(x.K) + " (" + x.Class + ")", "y": intHex(y.K) + " (" + y.Class + ")", "z": intHex(z.K)})
	}
}
