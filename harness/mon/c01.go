package mon

import (
	"fmt"
	"math/big"
	"strings"

	"filippo.io/edwards25519"
	"verifharness/gen"
	"verifharness/ref"
)

// receiver states for point-valued operations
const (
	rcvZero = iota
	rcvIdentity
	rcvArbitrary
	rcvPrevResult
	rcvAliasInput
	nRcv
)

var rcvNames = []string{"zero-value", "identity", "arbitrary", "prev-result", "alias-input"}

// C01: scalar multiplication is the exact multiple, receiver-independent.
func C01(c *Ctx) {
	if !ShimAvailable {
		c.Inconclusive("optional in-package shim not available: recodings and table selections are observed only through the public API")
	}
	n := c.N(20000, 600000)
	var prev *edwards25519.Point
	for i := int64(0); i < n; i++ {
		if !c.Mine(i) {
			continue
		}
		r := c.Begin(i)
		entry := int(i % 5)
		if c.Thorough() && i%11 == 0 {
			entry = r.Intn(5)
		}
		var scs []gen.SC
		var pts []gen.PC
		nterm := 1
		switch entry {
		case 0: // ScalarMult
			scs = []gen.SC{r.Scalar()}
			pts = []gen.PC{r.Point()}
		case 1: // ScalarBaseMult
			scs = []gen.SC{r.Scalar()}
		case 2: // VarTimeDoubleScalarBaseMult
			scs = []gen.SC{r.Scalar(), r.Scalar()}
			pts = []gen.PC{r.Point()}
		default:
			ns := []int{0, 1, 1, 2, 2, 3, 4, 8, 17}
			nterm = ns[r.Intn(len(ns))]
			if nterm > 4 && !r.Chance(1, 4) {
				nterm = 2
			}
			// rarely: many terms (batching or chunking thresholds in an implementation sit at
			// powers of two): just above 32, 64, 128
			if r.Chance(1, 40) {
				nterm = []int{33, 34, 40, 65, 70, 129}[r.Intn(6)]
				if !c.Thorough() && nterm > 70 {
					nterm = 65
				}
			}
			// very rarely: hundreds of terms (pool-bypass or chunking thresholds at 256/512/1024);
			// the terms reuse three point objects so that the model needs three multiplications
			huge := false
			if r.Chance(1, 300) {
				huge = true
				nterm = []int{255, 256, 257, 300}[r.Intn(4)]
				if c.Thorough() {
					nterm = []int{255, 256, 257, 300, 511, 512, 513, 1023, 1024, 1025}[r.Intn(10)]
				}
				c.Tally("multi-scalar calls with 255..1025 terms")
			}
			special := r.Intn(6)
			if huge {
				special = 5
				base := []gen.PC{r.Point(), r.Point(), r.Point()}
				for j := 0; j < nterm; j++ {
					scs = append(scs, r.Scalar())
					pts = append(pts, base[j%3])
				}
			} else {
				for j := 0; j < nterm; j++ {
					scs = append(scs, r.Scalar())
					pts = append(pts, r.Point())
				}
			}
			// zero and one scalars, identity and repeated-by-value points are ordinary inputs of
			// multi-scalar calls (batch verification with trivial terms) and typical fast-path bait
			if nterm >= 1 && !huge {
				switch r.Intn(8) {
				case 0:
					scs[r.Intn(nterm)] = gen.SC{K: big.NewInt(0), Class: "zero"}
				case 1:
					scs[r.Intn(nterm)] = gen.SC{K: big.NewInt(1), Class: "one"}
				case 2:
					j := r.Intn(nterm)
					pts[j] = r.PointFor(ref.Identity(), "identity")
				case 3:
					if nterm >= 2 { // same value, different object and representation
						pts[1] = r.PointFor(pts[0].M, pts[0].Class)
					}
				}
			}
			if nterm >= 2 {
				switch special {
				case 0: // same point repeated (also same pointer)
					for j := 1; j < nterm; j++ {
						pts[j] = pts[0]
					}
				case 1: // scalars summing to zero on one point
					pts[1] = pts[0]
					scs[1] = gen.SC{K: ref.SNeg(scs[0].K), Class: "neg-of-first"}
				}
			}
		}
		// a rejected valid construction is a C13 matter; here just redraw deterministically
		bad := false
		for j := range pts {
			for k := 0; pts[j].P == nil && k < 4; k++ {
				pts[j] = r.PointFor(pts[j].M, pts[j].Class)
			}
			if pts[j].P == nil {
				bad = true
			}
		}
		if bad {
			c.Fail("construction", map[string]any{"why": "SetExtendedCoordinates rejected valid coordinates 5 times"})
			continue
		}
		// expected
		var want ref.Pt
		switch entry {
		case 1:
			want = ref.Mul(scs[0].K, ref.Base())
		case 2:
			want = ref.Add(ref.Mul(scs[0].K, pts[0].M), ref.Mul(scs[1].K, ref.Base()))
		default:
			want = ref.Identity()
			if len(pts) >= 200 { // terms cycle through three point objects: sum the integers per object
				var sums [3]*big.Int
				for j := range pts {
					if sums[j%3] == nil {
						sums[j%3] = new(big.Int)
					}
					sums[j%3].Add(sums[j%3], scs[j].K)
				}
				for d := 0; d < 3; d++ {
					want = ref.Add(want, ref.Mul(sums[d], pts[d].M))
				}
			} else {
				for j := range pts {
					want = ref.Add(want, ref.Mul(scs[j].K, pts[j].M))
				}
			}
		}
		// library operands; the scalar value is cross-checked through Bytes
		libS := make([]*edwards25519.Scalar, len(scs))
		hparts := [][]byte{{byte(entry)}}
		nontriv := false
		for j, s := range scs {
			var how string
			libS[j], how = r.LibScalarAlt(s.K)
			_ = how
			kb := ref.IntToLE32(s.K)
			if string(libS[j].Bytes()) != string(kb[:]) {
				c.Fail("scalar construction", map[string]any{"k": intHex(s.K), "bytes": hx(libS[j].Bytes()), "how": how})
			}
			hparts = append(hparts, kb[:])
			if s.K.BitLen() > 1 {
				nontriv = true
			}
			c.Tally("scalar:" + s.Class)
			// recoding coverage (mirror, measurement only)
			if entry == 0 || entry == 1 || entry == 3 {
				d := ref.Radix16(s.K)
				for pos, dv := range d {
					c.Bit("radix16(pos,digit)", 64*17, pos*17+int(dv)+8)
				}
			} else {
				w := uint(5)
				if entry == 2 && j == 1 {
					w = 8
				}
				nf := ref.NAF(s.K, w)
				for pos, dv := range nf {
					if dv != 0 {
						if w == 5 {
							c.Bit("naf5(pos,odd digit)", 256*16, pos*16+(int(dv)+15)/2)
						} else {
							c.Bit("naf8(pos,odd digit)", 256*128, pos*128+(int(dv)+127)/2)
						}
					}
				}
			}
		}
		libP := make([]*edwards25519.Point, len(pts))
		for j, p := range pts {
			libP[j] = p.P
			e := ref.Encode(p.M)
			hparts = append(hparts, e[:], []byte(p.Build))
			c.tallyPoint(p)
			if !p.M.Eq(ref.Identity()) {
				nontriv = true
			}
		}
		if entry == 1 {
			nontriv = scs[0].K.Sign() != 0
		}
		if len(scs) > 0 {
			var pcp *gen.PC
			if len(pts) > 0 {
				pcp = &pts[0]
			}
			c.shimChecks(r, i, scs[0].K, libS[0], pcp)
		}
		c.Tally("entry:" + entryNames[entry])
		if entry >= 3 {
			c.Tally(fmt.Sprintf("nterms:%d", nterm))
		}

		// run under several receiver states
		states := []int{rcvZero, 1 + r.Intn(nRcv-1), 1 + r.Intn(nRcv-1)}
		if c.Thorough() {
			states = []int{rcvZero, rcvIdentity, rcvArbitrary, rcvPrevResult, rcvAliasInput}
		}
		var firstEnc []byte
		for _, stt := range states {
			var v *edwards25519.Point
			args := append([]*edwards25519.Point(nil), libP...)
			switch stt {
			case rcvZero:
				v = new(edwards25519.Point)
			case rcvIdentity:
				v = edwards25519.NewIdentityPoint()
			case rcvArbitrary:
				q := r.Point()
				if q.P == nil {
					v = edwards25519.NewGeneratorPoint()
				} else {
					v = q.P
				}
			case rcvPrevResult:
				if prev == nil {
					v = edwards25519.NewGeneratorPoint()
				} else {
					v = new(edwards25519.Point).Set(prev)
				}
			case rcvAliasInput:
				if len(args) == 0 {
					v = edwards25519.NewGeneratorPoint()
				} else {
					// receiver is (a copy of) input k, and that copy is what is passed
					k := r.Intn(len(args))
					v = new(edwards25519.Point).Set(args[k])
					for j := range args {
						if args[j] == libP[k] {
							args[j] = v
						}
					}
				}
			}
			var ret *edwards25519.Point
			pv := catch(func() {
				switch entry {
				case 0:
					ret = v.ScalarMult(libS[0], args[0])
				case 1:
					ret = v.ScalarBaseMult(libS[0])
				case 2:
					ret = v.VarTimeDoubleScalarBaseMult(libS[0], args[0], libS[1])
				case 3:
					if len(libS) == 0 && stt%2 == 1 {
						ret = v.MultiScalarMult(nil, nil) // nil slices are zero terms too
					} else {
						ret = v.MultiScalarMult(libS, args)
					}
				case 4:
					if len(libS) == 0 && stt%2 == 1 {
						ret = v.VarTimeMultiScalarMult(nil, nil)
					} else {
						ret = v.VarTimeMultiScalarMult(libS, args)
					}
				}
			})
			c.Eval(nontriv, append(hparts, []byte{byte(stt)})...)
			c.Tally("receiver:" + rcvNames[stt])
			det := func() map[string]any {
				m := map[string]any{"entry": entryNames[entry], "receiver": rcvNames[stt], "want": ptHex(want)}
				for j, s := range scs {
					m[fmt.Sprintf("k%d", j)] = intHex(s.K)
				}
				for j, p := range pts {
					m[fmt.Sprintf("P%d", j)] = ptHex(p.M) + " via " + p.Build
				}
				return m
			}
			if pv != nil {
				d := det()
				d["panic"] = pv
				c.Fail("unexpected panic", d)
				continue
			}
			if ret != v {
				c.Fail("returned pointer is not the receiver", det())
			}
			if why, st := checkPoint(v, want); why != "" {
				d := det()
				d["why"] = why
				d["got"] = hx(st.Enc)
				c.Fail("wrong multiple", d)
			} else {
				if firstEnc == nil {
					firstEnc = st.Enc
				} else if string(firstEnc) != string(st.Enc) {
					c.Fail("result depends on receiver state", det())
				}
				c.checkPointLimbs(v, entryNames[entry])
			}
			prev = v
		}
		c.Sample(entryNames[entry], func() map[string]any {
			m := map[string]any{"entry": entryNames[entry], "result": ptHex(want)}
			for j, s := range scs {
				m[fmt.Sprintf("k%d", j)] = intHex(s.K) + " (" + s.Class + ")"
			}
			for j, p := range pts {
				m[fmt.Sprintf("P%d", j)] = ptHex(p.M) + " (" + p.Class + " via " + p.Build + ")"
			}
			return m
		}())
	}
	_ = big.NewInt
}

var entryNames = []string{"ScalarMult", "ScalarBaseMult", "VarTimeDoubleScalarBaseMult", "MultiScalarMult", "VarTimeMultiScalarMult"}

// buildKey collapses a construction description to its route (and scale).
func buildKey(b string) string {
	if strings.HasPrefix(b, "ext(") {
		if j := strings.IndexAny(b[4:], ",)"); j >= 0 {
			return b[:4+j] + ")"
		}
	}
	if strings.HasPrefix(b, "neg(") {
		return "neg"
	}
	return b
}

// tallyPoint records the class, torsion component and construction route of a generated point.
func (c *Ctx) tallyPoint(p gen.PC) {
	cl := p.Class
	if i := strings.Index(cl, "]B+T"); i >= 0 {
		c.Tally("torsion:" + cl[i+3:])
		cl = cl[:i+1] + "B+T"
	}
	c.Tally("point:" + cl)
	c.Tally("build:" + buildKey(p.Build))
}
