//go:build amd64

package mon

// getBP returns the frame-pointer register (BP) as the caller sees it. BP is the one
// callee-saved general register of the Go ABI: it must have the same value before and after
// any call made from one function body, including calls into hand-written assembly.
func getBP() uintptr

const bpAvailable = true
