package mon

import (
	"fmt"
	"math/big"

	"filippo.io/edwards25519"
	"filippo.io/edwards25519/field"
	"verifharness/gen"
	"verifharness/raw"
	"verifharness/ref"
)

// zeroRepr returns one of several reachable representations of the field value 0.
func zeroRepr(r *gen.Rand, k int) (*field.Element, string) {
	switch k % 6 {
	case 0:
		return new(field.Element), "literal-zero"
	case 1:
		return gen.PForm(), "p-limbs"
	case 2:
		return new(field.Element).Add(gen.PForm(), gen.PForm()), "2p-after-carry"
	case 3:
		x, _ := r.RandRepr(r.BigBelow(ref.P))
		return new(field.Element).Subtract(x, x), "x-x"
	case 4:
		return new(field.Element).Negate(new(field.Element)), "neg(0)"
	default:
		e, d := r.RandRepr(big.NewInt(0))
		return e, "recipe:" + d
	}
}

// C13: extended-coordinate import/export is validated and faithful.
func C13(c *Ctx) {
	n := c.N(160000, 12000000)
	for i := int64(0); i < n; i++ {
		if !c.Mine(i) {
			continue
		}
		r := c.Begin(i)
		m, cls := r.ModelPoint()
		lam := r.BigBelow(ref.P)
		if lam.Sign() == 0 || i%5 == 0 {
			lam = big.NewInt(1)
		}
		X, Y, Z, T := gen.ExtOf(m, lam)
		var class string
		kind := i % 16
		vals := [4]*big.Int{X, Y, Z, T}
		var forced [4]*field.Element
		var forcedDesc [4]string
		switch kind {
		case 0, 1, 2, 3:
			class = "valid"
		case 4:
			vals[3] = ref.FAdd(T, big.NewInt(int64(1+r.Intn(3))))
			class = "T perturbed"
		case 5:
			vals[3] = ref.FNeg(T)
			class = "T negated"
		case 6: // X perturbed, T recomputed so that XY = ZT still holds
			vals[0] = ref.FAdd(X, big.NewInt(1))
			vals[3] = ref.FMul(ref.FMul(vals[0], Y), ref.FInv(Z))
			class = "X perturbed, T consistent"
		case 7:
			vals[1] = ref.FAdd(Y, big.NewInt(1))
			vals[3] = ref.FMul(ref.FMul(X, vals[1]), ref.FInv(Z))
			class = "Y perturbed, T consistent"
		case 8: // Z = 0 with the other three arbitrary
			vals[2] = big.NewInt(0)
			forced[2], forcedDesc[2] = zeroRepr(r, int(i/16))
			class = "Z=0, X,Y,T of a valid point"
		case 9: // all zero in every representation of zero
			for k := 0; k < 4; k++ {
				vals[k] = big.NewInt(0)
				forced[k], forcedDesc[k] = zeroRepr(r, int(i/16)+k*int(1+(i/96)%5))
			}
			class = "all-zero"
		case 10: // Z = 0, T = 0, X or Y zero
			vals[2], vals[3] = big.NewInt(0), big.NewInt(0)
			if r.Bool() {
				vals[0] = big.NewInt(0)
			} else {
				vals[1] = big.NewInt(0)
			}
			forced[2], forcedDesc[2] = zeroRepr(r, r.Intn(6))
			class = "Z=T=0 and X or Y zero"
		case 11:
			for k := 0; k < 4; k++ {
				vals[k] = r.BigBelow(ref.P)
			}
			class = "uniform quadruple"
		case 12: // Z scaled alone (affine point changes, relations break)
			vals[2] = ref.FMul(Z, big.NewInt(2))
			class = "Z doubled alone"
		case 13: // swap X and Y (on the curve only for special points)
			vals[0], vals[1] = Y, X
			class = "X,Y swapped"
		case 14: // negate X only (T unchanged): XY = -ZT
			vals[0] = ref.FNeg(X)
			class = "X negated alone"
		default: // -1 scale everything (valid)
			for k := 0; k < 4; k++ {
				vals[k] = ref.FNeg(vals[k])
			}
			class = "valid (all negated)"
		}
		var es [4]*field.Element
		var descs [4]string
		for k := 0; k < 4; k++ {
			if forced[k] != nil {
				es[k], descs[k] = forced[k], forcedDesc[k]
				continue
			}
			es[k], descs[k] = r.RandRepr(vals[k])
		}
		// aliasing among arguments where the values allow it
		aliased := ""
		for a := 0; a < 4; a++ {
			for b := a + 1; b < 4; b++ {
				if ref.Fe(vals[a]).Cmp(ref.Fe(vals[b])) == 0 && r.Bool() {
					es[b] = es[a]
					aliased += fmt.Sprintf("%d=%d ", a, b)
				}
			}
		}
		want := ref.ExtValid(vals[0], vals[1], vals[2], vals[3])
		recv := new(edwards25519.Point)
		if r.Bool() {
			recv = edwards25519.NewGeneratorPoint()
			if r.Bool() {
				recv.Add(recv, recv) // a receiver in general projective form
			}
		}
		recvBefore := raw.PointSnap(recv)
		var p *edwards25519.Point
		var err error
		pv := catch(func() { p, err = recv.SetExtendedCoordinates(es[0], es[1], es[2], es[3]) })
		var hp [][]byte
		for k := 0; k < 4; k++ {
			b := ref.FeBytes(vals[k])
			hp = append(hp, b[:], []byte(descs[k]))
		}
		c.Eval(true, hp...)
		c.Tally("class:" + class)
		det := map[string]any{"class": class, "X": intHex(vals[0]) + " " + descs[0], "Y": intHex(vals[1]) + " " + descs[1], "Z": intHex(vals[2]) + " " + descs[2], "T": intHex(vals[3]) + " " + descs[3], "aliased": aliased, "oracle-accepts": want}
		if pv != nil {
			det["panic"] = pv
			c.Fail("unexpected panic", det)
			continue
		}
		if want != (err == nil) {
			c.Fail("accept/reject differs from Z!=0 && curve && XY=ZT", det)
			continue
		}
		if !want {
			c.Tally("rejected")
			if p != nil {
				c.Fail("error with non-nil point", det)
			}
			if raw.PointSnap(recv) != recvBefore {
				c.Fail("rejected coordinates changed the receiver", det)
			}
			continue
		}
		c.Tally("accepted")
		if p != recv {
			c.Fail("returned pointer is not the receiver", det)
		}
		wm := ref.ExtAffine(vals[0], vals[1], vals[2])
		if why, st := checkPoint(recv, wm); why != "" {
			det["why"], det["got"] = why, hx(st.Enc)
			c.Fail("imported point is not (X/Z, Y/Z)", det)
			continue
		}
		// export and re-import
		X2, Y2, Z2, T2 := recv.ExtendedCoordinates()
		q, err := new(edwards25519.Point).SetExtendedCoordinates(X2, Y2, Z2, T2)
		if err != nil || q.Equal(recv) != 1 || string(q.Bytes()) != string(recv.Bytes()) {
			c.Fail("ExtendedCoordinates does not round-trip", det)
		}
		// the exported quadruple describes the point that was exported: it must still do so
		// after the source object has gone on to hold another value (accumulator pattern)
		if i%4 == 0 {
			switch r.Intn(3) {
			case 0:
				recv.Add(recv, edwards25519.NewGeneratorPoint())
			case 1:
				recv.MultByCofactor(recv)
				recv.Add(recv, edwards25519.NewGeneratorPoint())
			default:
				recv.Set(edwards25519.NewGeneratorPoint())
			}
			q2, err := new(edwards25519.Point).SetExtendedCoordinates(X2, Y2, Z2, T2)
			if err != nil {
				det["why"] = "rejected"
				c.Fail("exported quadruple no longer describes the exported point after the source object was reused as a receiver", det)
			} else if why, st := checkPoint(q2, wm); why != "" {
				det["why"], det["got"] = why, hx(st.Enc)
				c.Fail("exported quadruple no longer describes the exported point after the source object was reused as a receiver", det)
			}
			c.Tally("export outlives reuse of the source object")
		}
		c.Sample(class, map[string]any{"class": class, "point": ptHex(wm), "point-class": cls, "X": descs[0], "Z": descs[2]})
	}
}
