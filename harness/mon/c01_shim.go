//go:build verif_shim

package mon

import (
	"fmt"
	"math/big"

	"filippo.io/edwards25519"
	"verifharness/gen"
	"verifharness/ref"
)

// ShimAvailable: the optional in-package shim (recoders, table selection) is in this build.
const ShimAvailable = true

func signedMul(x int, p ref.Pt) ref.Pt {
	if x < 0 {
		return ref.Neg(ref.Mul(big.NewInt(int64(-x)), p))
	}
	return ref.Mul(big.NewInt(int64(x)), p)
}

// shimChecks checks, for one scalar and one point, every transition the multiplications are
// built from: the recodings reconstruct the scalar within their digit ranges, and every table
// entry that a digit can select is the corresponding multiple.
func (c *Ctx) shimChecks(r *gen.Rand, i int64, k *big.Int, s *edwards25519.Scalar, pc *gen.PC) {
	// --- recodings
	d := edwards25519.VerifRadix16(s)
	acc := new(big.Int)
	for j := 63; j >= 0; j-- {
		acc.Lsh(acc, 4)
		acc.Add(acc, big.NewInt(int64(d[j])))
		if d[j] < -8 || d[j] > 8 {
			c.Mech("signed radix-16 digit out of range", map[string]any{"k": intHex(k), "position": j, "digit": d[j]})
		}
	}
	c.Eval(true, []byte("radix16"), []byte(intHex(k)))
	c.Tally("shim: radix-16 recodings checked")
	if acc.Cmp(k) != 0 {
		c.Mech("signed radix-16 digits do not reconstruct the scalar", map[string]any{"k": intHex(k), "reconstructed": intHex(acc)})
	}
	for _, w := range []uint{5, 8} {
		n := edwards25519.VerifNAF(s, w)
		acc := new(big.Int)
		last := -1000
		for j := 255; j >= 0; j-- {
			acc.Lsh(acc, 1)
			acc.Add(acc, big.NewInt(int64(n[j])))
		}
		for j := 0; j < 256; j++ {
			if n[j] == 0 {
				continue
			}
			lim := int8(1) << (w - 1)
			if w == 8 {
				lim = 127
			}
			if n[j]%2 == 0 || n[j] > lim || n[j] < -lim || (w == 5 && (n[j] > 15 || n[j] < -15)) {
				c.Mech("NAF digit not odd or out of range", map[string]any{"k": intHex(k), "w": w, "position": j, "digit": n[j]})
			}
			if j-last < int(w) {
				c.Mech("NAF digits are adjacent", map[string]any{"k": intHex(k), "w": w, "position": j})
			}
			last = j
		}
		c.Eval(true, []byte(fmt.Sprint("naf", w)), []byte(intHex(k)))
		if acc.Cmp(k) != 0 {
			c.Mech("NAF digits do not reconstruct the scalar", map[string]any{"k": intHex(k), "w": w})
		}
	}
	// --- tables (a share of the cases: each is ~30 model multiplications)
	if i%4 != 0 {
		return
	}
	if pc != nil && pc.P != nil {
		for x := -8; x <= 8; x++ {
			var got *edwards25519.Point
			if pv := catch(func() { got = edwards25519.VerifProjSelect(pc.P, int8(x)) }); pv != nil {
				c.Mech("projLookupTable selection panicked", map[string]any{"x": x, "panic": pv})
				continue
			}
			c.Eval(true, []byte("projsel"), encOf(pc.M), []byte{byte(x)})
			if why, _ := checkPoint(got, signedMul(x, pc.M)); why != "" {
				c.Mech("dynamic lookup table: entry selected for digit x is not [x]Q", map[string]any{"x": x, "Q": ptHex(pc.M) + " via " + pc.Build, "why": why})
			}
		}
		for x := 1; x < 16; x += 2 {
			got := edwards25519.VerifNaf5Select(pc.P, int8(x))
			c.Eval(true, []byte("naf5sel"), encOf(pc.M), []byte{byte(x)})
			if why, _ := checkPoint(got, signedMul(x, pc.M)); why != "" {
				c.Mech("NAF-5 table: entry for odd digit x is not [x]Q", map[string]any{"x": x, "Q": ptHex(pc.M) + " via " + pc.Build, "why": why})
			}
		}
		c.Tally("shim: dynamic tables checked (17 + 8 entries each)")
	}
	// precomputed basepoint tables: walk (table index, digit) pairs over the run
	ti := int((i / 4) % 32)
	base := ref.Mul(new(big.Int).Lsh(big.NewInt(1), uint(8*ti)), ref.Base())
	for _, x := range []int{-8, int((i/4/32)%17) - 8, 8} {
		got := edwards25519.VerifAffineSelect(ti, int8(x))
		c.Eval(true, []byte("affsel"), []byte{byte(ti), byte(x)})
		c.Bit("shim: basepoint table (index, digit) pairs", 32*17, ti*17+x+8)
		if why, _ := checkPoint(got, signedMul(x, base)); why != "" {
			c.Mech("precomputed basepoint table: entry is not [x * 256^i]B", map[string]any{"i": ti, "x": x, "why": why})
		}
	}
	x8 := 1 + 2*int((i/4)%64)
	got := edwards25519.VerifNaf8Select(int8(x8))
	c.Eval(true, []byte("naf8sel"), []byte{byte(x8)})
	c.Bit("shim: NAF-8 table odd digits", 64, x8/2)
	if why, _ := checkPoint(got, signedMul(x8, ref.Base())); why != "" {
		c.Mech("precomputed NAF-8 table: entry for odd digit x is not [x]B", map[string]any{"x": x8, "why": why})
	}
}
