package mon

import (
	"math/big"

	"filippo.io/edwards25519"
	"verifharness/gen"
	"verifharness/ref"
)

// nAssign is the number of ways reassign can give a long-lived Point object a new value.
const nAssign = 10

// reassign makes obj hold the model point m through one of the assigning methods of the
// public API, with operands built by random routes (so their projective scale differs from
// whatever obj held before). It returns a description, or "" if a construction was rejected.
func reassign(r *gen.Rand, obj *edwards25519.Point, m ref.Pt, how int) string {
	src, via := r.LibPoint(m, r.Intn(gen.NBuild))
	if src == nil {
		return ""
	}
	id, _ := r.LibPoint(ref.Identity(), r.Intn(gen.NBuild))
	if id == nil {
		id = edwards25519.NewIdentityPoint()
	}
	one := gen.LibScalar(big.NewInt(1))
	switch how % nAssign {
	case 0:
		obj.Set(src)
		return "Set(" + via + ")"
	case 1:
		nsrc, nvia := r.LibPoint(ref.Neg(m), r.Intn(gen.NBuild))
		if nsrc == nil {
			return ""
		}
		obj.Negate(nsrc)
		return "Negate(" + nvia + ")"
	case 2:
		obj.Add(src, id)
		return "Add(" + via + ", identity)"
	case 3:
		obj.Subtract(src, id)
		return "Subtract(" + via + ", identity)"
	case 4:
		e := ref.Encode(m)
		if _, err := obj.SetBytes(e[:]); err != nil {
			return ""
		}
		return "SetBytes"
	case 5:
		lam := r.BigBelow(ref.P)
		if lam.Sign() == 0 {
			lam = big.NewInt(1)
		}
		X, Y, Z, T := gen.ExtOf(m, lam)
		if _, err := obj.SetExtendedCoordinates(gen.Canon(X), gen.Canon(Y), gen.Canon(Z), gen.Canon(T)); err != nil {
			return ""
		}
		return "SetExtendedCoordinates(scale=uniform)"
	case 6:
		obj.ScalarMult(one, src)
		return "ScalarMult(1, " + via + ")"
	case 7:
		obj.VarTimeMultiScalarMult([]*edwards25519.Scalar{one}, []*edwards25519.Point{src})
		return "VarTimeMultiScalarMult([1], " + via + ")"
	case 8:
		obj.MultiScalarMult([]*edwards25519.Scalar{one}, []*edwards25519.Point{src})
		return "MultiScalarMult([1], " + via + ")"
	default: // in place: obj first becomes -m, then is negated in place
		nsrc, nvia := r.LibPoint(ref.Neg(m), r.Intn(gen.NBuild))
		if nsrc == nil {
			return ""
		}
		obj.Set(nsrc)
		obj.Negate(obj)
		return "Negate in place after Set(" + nvia + ")"
	}
}
