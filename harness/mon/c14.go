package mon

import (
	"math/big"

	"filippo.io/edwards25519"
	"filippo.io/edwards25519/field"
	"verifharness/gen"
	"verifharness/raw"
	"verifharness/ref"
)

var wrongLens = func() []int {
	var l []int
	for i := 0; i <= 100; i++ {
		l = append(l, i)
	}
	return append(l, 128, 255, 1024)
}()

// invalidPointEncoding returns 32 bytes the model rejects.
func invalidPointEncoding(r *gen.Rand) []byte {
	for {
		b := r.Bytes(32)
		if r.Bool() { // neighbour of a valid encoding
			m, _ := r.ModelPoint()
			bb := ref.FeBytes(ref.FAdd(m.Y, big.NewInt(int64(1+r.Intn(3)))))
			b = bb[:]
		}
		if _, ok := ref.Decode(b); !ok {
			return b
		}
	}
}

func nonCanonicalScalar(r *gen.Rand) []byte {
	switch r.Intn(4) {
	case 0:
		b := ref.IntToLE32(ref.L)
		return b[:]
	case 1:
		b := ref.IntToLE32(new(big.Int).Add(ref.L, big.NewInt(int64(r.Intn(1000)))))
		return b[:]
	case 2:
		b := r.Bytes(32)
		b[31] |= 0x20
		return b
	default:
		b := r.Bytes(32)
		b[31] |= 0x80
		return b
	}
}

// C14: failed setters are atomic; successful ones return the receiver; inputs never modified.
func C14(c *Ctx) {
	// inputs are also placed against PROT_NONE pages: a read before the start or past the end
	// of the slice (an unsafe load of a whole word, a length assumed instead of checked) faults
	arena, aerr := newGuardArena()
	if aerr != nil {
		c.Inconclusive("guard pages unavailable: " + aerr.Error())
		arena = nil
	}
	n := c.N(240000, 24000000)
	roActive := false
	for i := int64(0); i < n; i++ {
		if !c.Mine(i) {
			continue
		}
		if roActive { // a case that ended early (panic path) left the page read-only
			arena.readOnly(false)
			roActive = false
		}
		r := c.Begin(i)
		setter := int(i % 7)
		fail := (i/7)%4 != 3 // three quarters failing calls, one quarter successful
		names := []string{"Point.SetBytes", "Point.SetExtendedCoordinates", "Scalar.SetCanonicalBytes", "Scalar.SetUniformBytes", "Scalar.SetBytesWithClamping", "Element.SetBytes", "Element.SetWideBytes"}
		name := names[setter]
		rightLen := []int{32, 0, 32, 64, 32, 32, 64}[setter]
		// receiver state
		rs := int(i/28) % 4
		rsName := []string{"zero-value", "typical", "non-canonical representation", "previously failed target"}[rs]
		// input
		var in []byte
		var why string
		inReadOnly := false
		if setter != 1 {
			if fail {
				contentFail := (setter == 0 || setter == 2) && r.Bool()
				if contentFail {
					if setter == 0 {
						in, why = invalidPointEncoding(r), "off-curve encoding"
					} else {
						in, why = nonCanonicalScalar(r), "scalar >= l"
					}
				} else {
					ln := wrongLens[int(i/7/4)%len(wrongLens)]
					if ln == rightLen {
						ln++
					}
					in, why = r.Bytes(ln), "wrong length"
					c.Bit("wrong lengths tried", len(wrongLens), int(i/7/4)%len(wrongLens))
				}
			} else {
				switch setter {
				case 0:
					m, _ := r.ModelPoint()
					in = encOf(m)
				case 2:
					b := ref.IntToLE32(r.BigBelow(ref.L))
					in = b[:]
				default:
					in = r.Bytes(rightLen)
				}
				why = "valid"
			}
			in = in[:len(in):len(in)]
		}
		// half of the inputs sit inside a larger buffer with spare capacity behind them: a
		// setter that appends to its input (or writes past it) changes the caller's memory
		var whole, wholeCopy []byte
		if setter != 1 && r.Bool() {
			whole = r.Bytes(len(in) + 8 + 96)
			copy(whole[8:], in)
			in = whole[8 : 8+len(in)]
			wholeCopy = append([]byte(nil), whole...)
			c.Tally("inputs with spare capacity")
		}
		if setter != 1 && whole == nil && arena != nil && len(in) <= arena.page {
			off := arena.page // first byte of the accessible page
			where := "start"
			if r.Bool() {
				off = 2*arena.page - len(in) // last byte is the last accessible one
				where = "end"
			}
			copy(arena.mem[off:off+len(in)], in)
			in = arena.mem[off : off+len(in) : off+len(in)]
			c.Tally("inputs placed at the " + where + " of a guard-paged buffer")
			// "no setter ever modifies its input", observed exactly: the page holding the input
			// is read-only during the call, so a store into the input faults even if the setter
			// would have restored the bytes before returning
			if arena.readOnly(true) == nil {
				inReadOnly, roActive = true, true
				c.Tally("inputs in read-only memory during the call")
			}
		}
		inCopy := append([]byte(nil), in...)
		det := map[string]any{"setter": name, "receiver": rsName, "input": hx(in), "why": why}
		// value of the receiver after a successful call (set below), for the retention check
		var valueAfter func() string
		if setter != 1 {
			c.Tally(name + ":" + why)
		}
		c.Tally("receiver:" + rsName)
		switch {
		case setter <= 1: // Point
			recv := new(edwards25519.Point)
			switch rs {
			case 1:
				recv = r.Point().P
			case 2:
				m, _ := r.ModelPoint()
				recv, _ = r.LibPoint(m, 3)
			case 3:
				recv = edwards25519.NewGeneratorPoint()
				recv.SetBytes(invalidPointEncoding(r))
				recv.SetBytes(make([]byte, 31))
			}
			if recv == nil {
				recv = edwards25519.NewGeneratorPoint()
			}
			before := raw.PointSnap(recv)
			var p *edwards25519.Point
			var err error
			var argsBefore, argsAfter [4]string
			if setter == 0 {
				pv := catch(func() { p, err = recv.SetBytes(in) })
				if pv != nil {
					det["panic"] = pv
					c.Fail("unexpected panic", det)
					continue
				}
			} else {
				m, _ := r.ModelPoint()
				lam := r.BigBelow(ref.P)
				if lam.Sign() == 0 {
					lam = big.NewInt(1)
				}
				X, Y, Z, T := gen.ExtOf(m, lam)
				vals := [4]*big.Int{X, Y, Z, T}
				if fail {
					switch r.Intn(6) {
					case 4, 5: // passes the curve equation (squares only), fails XY = ZT
						k := r.Intn(4)
						vals[k] = ref.FNeg(vals[k])
						why = "one coordinate negated"
					case 0:
						vals[3] = ref.FAdd(T, big.NewInt(1))
						why = "T perturbed"
					case 1:
						vals[2] = big.NewInt(0)
						why = "Z=0"
					case 2:
						vals = [4]*big.Int{big.NewInt(0), big.NewInt(0), big.NewInt(0), big.NewInt(0)}
						why = "all-zero"
					default:
						vals[0] = ref.FAdd(X, big.NewInt(1))
						why = "X perturbed"
					}
					if ref.ExtValid(vals[0], vals[1], vals[2], vals[3]) {
						why = "valid" // perturbation happened to be valid; treat as success case
					}
				} else {
					why = "valid"
				}
				det["why"] = why
				c.Tally(name + ":" + why)
				var es [4]*field.Element
				for k := range es {
					es[k], _ = r.RandRepr(vals[k])
					argsBefore[k] = raw.ElementSnap(es[k])
				}
				pv := catch(func() { p, err = recv.SetExtendedCoordinates(es[0], es[1], es[2], es[3]) })
				if pv != nil {
					det["panic"] = pv
					c.Fail("unexpected panic", det)
					continue
				}
				for k := range es {
					argsAfter[k] = raw.ElementSnap(es[k])
				}
				fail = why != "valid"
			}
			c.Eval(true, []byte(name), in, []byte(before), []byte(why))
			if argsBefore != argsAfter {
				c.Fail("setter modified a coordinate argument", det)
			}
			if fail {
				if err == nil || p != nil {
					det["err-nil"], det["value-nil"] = err == nil, p == nil
					c.Fail("invalid input: expected (nil, error)", det)
				}
				if raw.PointSnap(recv) != before {
					c.Fail("failed setter changed the receiver", det)
				}
			} else if err != nil || p != recv {
				c.Fail("valid input: expected (receiver, nil)", det)
			} else {
				valueAfter = func() string { return string(recv.Bytes()) }
			}
		case setter <= 4: // Scalar
			recv := new(edwards25519.Scalar)
			switch rs {
			case 1, 2:
				recv = gen.LibScalar(r.BigBelow(ref.L))
			case 3:
				recv = gen.LibScalar(r.BigBelow(ref.L))
				recv.SetCanonicalBytes(nonCanonicalScalar(r))
				recv.SetUniformBytes(make([]byte, 63))
			}
			before := raw.ScalarSnap(recv)
			var s *edwards25519.Scalar
			var err error
			pv := catch(func() {
				switch setter {
				case 2:
					s, err = recv.SetCanonicalBytes(in)
				case 3:
					s, err = recv.SetUniformBytes(in)
				default:
					s, err = recv.SetBytesWithClamping(in)
				}
			})
			c.Eval(true, []byte(name), in, []byte(before))
			if pv != nil {
				det["panic"] = pv
				c.Fail("unexpected panic", det)
				continue
			}
			if fail {
				if err == nil || s != nil {
					c.Fail("invalid input: expected (nil, error)", det)
				}
				if raw.ScalarSnap(recv) != before {
					c.Fail("failed setter changed the receiver", det)
				}
			} else if err != nil || s != recv {
				c.Fail("valid input: expected (receiver, nil)", det)
			} else {
				valueAfter = func() string { return string(recv.Bytes()) }
			}
		default: // Element
			recv := new(field.Element)
			switch rs {
			case 1:
				recv = gen.Canon(r.BigBelow(ref.P))
			case 2:
				recv, _ = r.Repr(r.BigBelow(ref.P), 7+r.Intn(4))
			case 3:
				recv = gen.Canon(r.BigBelow(ref.P))
				recv.SetBytes(make([]byte, 33))
				recv.SetWideBytes(make([]byte, 32))
			}
			before := raw.ElementSnap(recv)
			var e *field.Element
			var err error
			pv := catch(func() {
				if setter == 5 {
					e, err = recv.SetBytes(in)
				} else {
					e, err = recv.SetWideBytes(in)
				}
			})
			c.Eval(true, []byte(name), in, []byte(before))
			if pv != nil {
				det["panic"] = pv
				c.Fail("unexpected panic", det)
				continue
			}
			if fail {
				if err == nil || e != nil {
					c.Fail("invalid input: expected (nil, error)", det)
				}
				if raw.ElementSnap(recv) != before {
					c.Fail("failed setter changed the receiver", det)
				}
			} else if err != nil || e != recv {
				c.Fail("valid input: expected (receiver, nil)", det)
			} else {
				valueAfter = func() string { return string(recv.Bytes()) }
			}
		}
		if inReadOnly {
			arena.readOnly(false)
			roActive = false
		}
		if string(in) != string(inCopy) {
			c.Fail("setter modified its input slice", det)
		}
		if whole != nil && string(whole) != string(wholeCopy) {
			c.Fail("setter wrote to the caller's memory around its input slice (spare capacity)", det)
		}
		// the value must have been copied out of the caller's buffer: overwriting the buffer
		// after a successful call must not change what the receiver holds
		if valueAfter != nil && setter != 1 && len(in) > 0 {
			v0 := valueAfter()
			for k := range in {
				in[k] ^= 0xa5
			}
			if valueAfter() != v0 {
				c.Fail("the receiver's value changed when the caller's input buffer was overwritten after the call (the setter kept a reference to its input)", det)
			}
			c.Tally("input buffers overwritten after a successful call")
		}
		c.Sample(name+":"+why, map[string]any{"setter": name, "receiver": rsName, "input": hx(in), "why": why})
	}
}
