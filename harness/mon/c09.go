package mon

import (
	"fmt"
	"math/big"

	"filippo.io/edwards25519/field"
	"verifharness/gen"
	"verifharness/raw"
	"verifharness/ref"
)

var pow22523Exp = new(big.Int).Sub(new(big.Int).Lsh(big.NewInt(1), 252), big.NewInt(3))

// checkFe compares a library element with the model value through Bytes and, independently,
// through the raw limbs; and asserts the documented limb bound.
func (c *Ctx) checkFe(e *field.Element, want *big.Int, what string, det func() map[string]any) bool {
	wb := ref.FeBytes(want)
	got := e.Bytes()
	ok := true
	if string(got) != string(wb[:]) {
		d := det()
		d["what"], d["got"], d["want"] = what, hx(got), hx(wb[:])
		if raw.ElementOK() {
			d["limbs"] = raw.FmtLimbs(raw.Limbs(e))
		}
		c.Fail("field result differs from GF(p)", d)
		ok = false
	}
	if raw.ElementOK() {
		l := raw.Limbs(e)
		if ref.Fe(raw.LimbValue(l)).Cmp(ref.Fe(want)) != 0 && ok {
			d := det()
			d["what"], d["limbs"] = what, raw.FmtLimbs(l)
			c.Fail("limb value differs from GF(p) result while Bytes agrees", d)
			ok = false
		}
		for j := range l {
			c.Max(fmt.Sprintf("limb%d after %s", j, what), l[j])
			if l[j] >= 1<<52 {
				d := det()
				d["what"], d["limbs"] = what, raw.FmtLimbs(l)
				c.Fail("limb bound 2^52 exceeded", d)
				ok = false
				break
			}
		}
	} else {
		c.Inconclusive("raw layout guard failed: limbs not observed")
	}
	return ok
}

type feOperand struct {
	v    *big.Int
	e    *field.Element
	desc string
}

func (r0 feOperand) limbs() string {
	if raw.ElementOK() {
		return raw.FmtLimbs(raw.Limbs(r0.e))
	}
	return "?"
}

func drawFe(r *gen.Rand, maximise bool) feOperand {
	if maximise && r.Bool() {
		pat := 31
		if r.Chance(1, 3) {
			pat = r.Intn(32)
		}
		e, v, d := r.MaxLimbOperand(pat)
		return feOperand{v, e, "maxlimb/" + d}
	}
	fc := r.FieldValue()
	rc := r.Intn(gen.NRecipes)
	if maximise {
		rc = 7 + r.Intn(5)
	}
	e, d := r.Repr(fc.V, rc)
	return feOperand{fc.V, e, fc.Class + "/" + d}
}

// feOps applies every field operation to (a, b) and checks each against the model.
func (c *Ctx) feOps(r *gen.Rand, a, b feOperand, heavy bool) {
	det := func() map[string]any {
		return map[string]any{"a": intHex(a.v), "a-repr": a.desc, "a-limbs": a.limbs(), "b": intHex(b.v), "b-repr": b.desc, "b-limbs": b.limbs()}
	}
	ab, bb := ref.FeBytes(a.v), ref.FeBytes(b.v)
	var al, bl [40]byte
	if raw.ElementOK() {
		al, bl = raw.ElementBytes(a.e), raw.ElementBytes(b.e)
		for j, x := range raw.Limbs(a.e) {
			c.Max(fmt.Sprintf("operand limb%d", j), x)
		}
		for j, x := range raw.Limbs(b.e) {
			c.Max(fmt.Sprintf("operand limb%d", j), x)
		}
	}
	nontriv := a.v.BitLen() > 1 || b.v.BitLen() > 1
	ev := func(op string) { c.Eval(nontriv, []byte(op), ab[:], bb[:], al[:], bl[:]); c.Tally("op:" + op) }
	v := new(field.Element)
	if v.Add(a.e, b.e) != v {
		c.Fail("returned pointer is not the receiver", det())
	}
	ev("Add")
	c.checkFe(v, ref.FAdd(a.v, b.v), "Add", det)
	v = new(field.Element).Subtract(a.e, b.e)
	ev("Subtract")
	c.checkFe(v, ref.FSub(a.v, b.v), "Subtract", det)
	v = new(field.Element).Negate(a.e)
	ev("Negate")
	c.checkFe(v, ref.FNeg(a.v), "Negate", det)
	v = new(field.Element).Multiply(a.e, b.e)
	ev("Multiply")
	c.checkFe(v, ref.FMul(a.v, b.v), "Multiply", det)
	v = new(field.Element).Square(a.e)
	ev("Square")
	c.checkFe(v, ref.FSqr(a.v), "Square", det)
	k := uint32(r.U64())
	if r.Bool() {
		k = 0xffffffff - uint32(r.Intn(8))
	}
	v = new(field.Element).Mult32(a.e, k)
	ev("Mult32")
	c.checkFe(v, ref.FMul(a.v, big.NewInt(int64(k))), "Mult32", func() map[string]any { d := det(); d["k"] = k; return d })
	v = new(field.Element).Absolute(a.e)
	ev("Absolute")
	abs := ref.Fe(a.v)
	if abs.Bit(0) == 1 {
		abs = ref.FNeg(abs)
	}
	c.checkFe(v, abs, "Absolute", det)
	if heavy {
		v = new(field.Element).Invert(a.e)
		ev("Invert")
		c.checkFe(v, ref.FInv(a.v), "Invert", det)
		v = new(field.Element).Pow22523(a.e)
		ev("Pow22523")
		c.checkFe(v, ref.FPow(a.v, pow22523Exp), "Pow22523", det)
		// involutions applied in place, twice, on one object: 1/(1/a) = a, -(-a) = a
		y := new(field.Element).Set(a.e)
		y.Invert(y)
		c.checkFe(y, ref.FInv(a.v), "Invert in place", det)
		y.Invert(y)
		ev("Invert-twice-in-place")
		c.checkFe(y, a.v, "Invert applied twice in place", det)
		y.Negate(y)
		y.Negate(y)
		c.checkFe(y, a.v, "Negate applied twice in place", det)
		w := new(field.Element).Invert(y) // and once more from a different receiver
		c.checkFe(w, ref.FInv(a.v), "Invert after in-place inversions", det)
	}
	// arguments are never modified (bit for bit)
	if raw.ElementOK() && (raw.ElementBytes(a.e) != al || raw.ElementBytes(b.e) != bl) {
		c.Fail("an argument was modified", det())
	}
}

// C09: field arithmetic is GF(p) for every reachable representation.
func C09(c *Ctx) {
	n := c.N(160000, 30000000)
	for i := int64(0); i < n; i++ {
		if !c.Mine(i) {
			continue
		}
		r := c.Begin(i)
		switch i % 4 {
		case 0, 1: // (i) one-step on (value class x recipe) operands
			a := drawFe(r, i%8 == 0)
			b := drawFe(r, i%8 == 0)
			if i%32 == 5 {
				b = a // both operands the same object
			}
			c.Tally("recipe:" + recipeKey(a.desc))
			c.feOps(r, a, b, i%16 == 0)
			c.Sample("one-step:"+recipeKey(a.desc), map[string]any{"a": intHex(a.v), "a-repr": a.desc, "a-limbs": a.limbs(), "b": intHex(b.v), "b-repr": b.desc})
		case 2: // (iii) values around the reduction boundary, in every recipe
			p := ref.P
			vals := []*big.Int{new(big.Int).Sub(p, big.NewInt(1)), new(big.Int).Set(p), new(big.Int).Add(p, big.NewInt(1)), big.NewInt(18), big.NewInt(19), big.NewInt(0),
				new(big.Int).Sub(p, big.NewInt(19)), new(big.Int).Sub(p, big.NewInt(20)), big.NewInt(20)}
			v := vals[int(i/4)%len(vals)]
			rc := int(i/4/int64(len(vals))) % gen.NRecipes
			e, d := r.Repr(v, rc)
			a := feOperand{ref.Fe(v), e, "boundary/" + d}
			b := drawFe(r, false)
			c.Tally("recipe:" + recipeKey(a.desc))
			c.feOps(r, a, b, false)
			// predicates on the boundary forms
			if got, want := a.e.IsNegative(), int(ref.Fe(v).Bit(0)); got != want {
				c.Fail("IsNegative wrong on boundary representation", map[string]any{"a": intHex(a.v), "repr": a.desc, "limbs": a.limbs(), "got": got})
			}
			c.Eval(true, []byte("boundary-IsNegative"), []byte(a.desc), []byte(intHex(a.v)))
		default: // (ii) histories: outputs feed inputs, steered towards large limbs
			c.feHistory(r)
		}
	}
}

func recipeKey(d string) string {
	// "class/R2:mult32(0x..)" -> "R2:mult32"
	for i := 0; i < len(d); i++ {
		if d[i] == '/' {
			d = d[i+1:]
			break
		}
	}
	for i := 0; i < len(d); i++ {
		if d[i] == '(' || d[i] == ',' {
			return d[:i]
		}
	}
	return d
}

// feHistory runs a history of 30-120 field steps over a pool, with a magnitude-guided choice
// of next step: candidates that set a new per-limb maximum are preferred.
func (c *Ctx) feHistory(r *gen.Rand) {
	var pool []slot
	for k := 0; k < 6; k++ {
		o := drawFe(r, k < 3)
		pool = append(pool, slot{ref.Fe(o.v), o.e})
	}
	steps := 30 + r.Intn(90)
	var hist []string
	// one element object lives through the whole history and is updated IN PLACE; the heavy
	// operations are applied to it again and again (same pointer, different values)
	acc := slot{new(big.Int).Set(pool[0].v), new(field.Element).Set(pool[0].e)}
	inv, pw, sq := new(field.Element), new(field.Element), new(field.Element)
	limbMax := func(e *field.Element) uint64 {
		if !raw.ElementOK() {
			return 0
		}
		var m uint64
		for _, x := range raw.Limbs(e) {
			if x > m {
				m = x
			}
		}
		return m
	}
	for s := 0; s < steps; s++ {
		// draw 3 candidate steps, keep the one whose output has the largest max limb
		var best slot
		var bestDesc string
		var bestMax uint64
		nc := 3
		for k := 0; k < nc; k++ {
			ai, bi := r.Intn(len(pool)), r.Intn(len(pool))
			a, b := pool[ai], pool[bi]
			var out slot
			var desc string
			switch r.Intn(9) {
			case 0:
				out = slot{ref.FAdd(a.v, b.v), new(field.Element).Add(a.e, b.e)}
				desc = fmt.Sprintf("s%d+s%d", ai, bi)
			case 1:
				out = slot{ref.FSub(a.v, b.v), new(field.Element).Subtract(a.e, b.e)}
				desc = fmt.Sprintf("s%d-s%d", ai, bi)
			case 2:
				out = slot{ref.FNeg(a.v), new(field.Element).Negate(a.e)}
				desc = fmt.Sprintf("-s%d", ai)
			case 3, 4:
				kk := 0xffffffff - uint32(r.Intn(1<<12))
				out = slot{ref.FMul(a.v, big.NewInt(int64(kk))), new(field.Element).Mult32(a.e, kk)}
				desc = fmt.Sprintf("mult32(s%d,%#x)", ai, kk)
			case 5:
				out = slot{ref.FMul(a.v, b.v), new(field.Element).Multiply(a.e, b.e)}
				desc = fmt.Sprintf("s%d*s%d", ai, bi)
			case 6:
				out = slot{ref.FSqr(a.v), new(field.Element).Square(a.e)}
				desc = fmt.Sprintf("s%d^2", ai)
			case 7:
				cond := r.Intn(2)
				sel := new(field.Element).Select(a.e, b.e, cond)
				if cond == 1 {
					out = slot{a.v, sel}
				} else {
					out = slot{b.v, sel}
				}
				desc = fmt.Sprintf("select(s%d,s%d,%d)", ai, bi, cond)
			default:
				// 0 - a with a the current largest: stresses Subtract's +2p
				out = slot{ref.FNeg(a.v), new(field.Element).Subtract(new(field.Element), a.e)}
				desc = fmt.Sprintf("0-s%d", ai)
			}
			if m := limbMax(out.e); k == 0 || m > bestMax {
				best, bestDesc, bestMax = out, desc, m
			}
		}
		hist = append(hist, bestDesc)
		det := func() map[string]any {
			h := hist
			if len(h) > 40 {
				h = h[len(h)-40:]
			}
			return map[string]any{"history-tail": h, "step": s}
		}
		c.Eval(true, []byte("hist"), []byte(bestDesc), []byte(intHex(best.v)))
		c.Tally("history-steps")
		if !c.checkFe(best.e, best.v, "history", det) {
			return
		}
		pool[r.Intn(len(pool))] = best
		// in-place update of the long-lived object, then the heavy operations on it
		switch s % 3 {
		case 0:
			acc.e.Add(acc.e, best.e)
			acc.v = ref.FAdd(acc.v, best.v)
		case 1:
			acc.e.Multiply(acc.e, best.e)
			acc.v = ref.FMul(acc.v, best.v)
		default:
			acc.e.Subtract(best.e, acc.e)
			acc.v = ref.FSub(best.v, acc.v)
		}
		if s%6 == 5 {
			inv.Invert(acc.e)
			pw.Pow22523(acc.e)
			_, wsq := sq.SqrtRatio(acc.e, pool[0].e)
			wantR, wantSq := ref.SqrtRatioM1(acc.v, pool[0].v)
			c.Eval(true, []byte("hist-inplace"), []byte(intHex(acc.v)))
			c.Tally("in-place object: heavy operations re-applied")
			if !c.checkFe(inv, ref.FInv(acc.v), "Invert of an object updated in place", det) ||
				!c.checkFe(pw, ref.FPow(acc.v, pow22523Exp), "Pow22523 of an object updated in place", det) ||
				!c.checkFe(sq, wantR, "SqrtRatio of an object updated in place", det) {
				return
			}
			if wsq != wantSq {
				c.Fail("SqrtRatio flag wrong on an object updated in place", det())
				return
			}
		}
	}
	// finish: heavy ops on every pool member
	for _, s := range pool {
		o := feOperand{s.v, s.e, "history-output"}
		c.feOps(r, o, pool[r.Intn(len(pool))].toOperand(), true)
	}
	c.Sample("history", map[string]any{"steps": steps, "first-steps": hist[:8]})
}

type slot struct {
	v *big.Int
	e *field.Element
}

func (s slot) toOperand() feOperand { return feOperand{s.v, s.e, "history-output"} }
