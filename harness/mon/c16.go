package mon

import (
	"math/big"

	"filippo.io/edwards25519/field"
	"verifharness/gen"
	"verifharness/ref"
)

// C16: SqrtRatio follows the SQRT_RATIO_M1 contract.
func C16(c *Ctx) {
	n := c.N(240000, 24000000)
	one := big.NewInt(1)
	for i := int64(0); i < n; i++ {
		if !c.Mine(i) {
			continue
		}
		r := c.Begin(i)
		var u, v *big.Int
		var class string
		x := r.BigBelow(ref.P)
		w := r.BigBelow(ref.P)
		if w.Sign() == 0 {
			w = big.NewInt(1)
		}
		switch i % 16 {
		case 14, 15:
			// v*r^2 is always u times a fourth root of unity, and the contract is decided by
			// comparing it with u, -u and -u*i: make two of those candidates differ by a
			// structured value (power of two, half-empty limbs), u = delta/(zeta - zeta')
			roots := []*big.Int{big.NewInt(1), ref.FNeg(big.NewInt(1)), ref.SqrtM1, ref.FNeg(ref.SqrtM1)}
			a := r.Intn(4)
			b := (a + 1 + r.Intn(3)) % 4
			u = ref.FMul(r.StructuredDelta(), ref.FInv(ref.FSub(roots[a], roots[b])))
			v = big.NewInt(1)
			if i%16 == 15 {
				v = w
				u = ref.FMul(u, v)
			}
			class = "candidates differ by a structured value"
		case 0:
			u, v, class = big.NewInt(0), big.NewInt(0), "(0,0)"
		case 1:
			u, v, class = big.NewInt(0), w, "(0,v)"
		case 2:
			u, v, class = w, big.NewInt(0), "(u,0)"
		case 3: // square ratio: u = x^2 * v
			v = w
			u, class = ref.FMul(ref.FSqr(x), v), "u/v square"
		case 4: // non-square ratio: u = 2 x^2 v (2 is a non-residue)
			v = w
			u, class = ref.FMul(big.NewInt(2), ref.FMul(ref.FSqr(x), v)), "u/v non-square"
		case 5:
			u, v, class = w, w, "u=v"
		case 6:
			u, v, class = w, ref.FNeg(w), "u=-v"
		case 7:
			u, v, class = ref.FMul(ref.SqrtM1, w), w, "u=i*v"
		case 8:
			u, v, class = ref.FMul(ref.FNeg(ref.SqrtM1), w), w, "u=-i*v"
		case 9:
			u, v, class = x, one, "v=1"
		case 10:
			u, v, class = big.NewInt(int64(r.Intn(64))), big.NewInt(int64(r.Intn(64))), "small"
		case 11: // the (u,v) point decoding produces for a random y
			y := r.BigBelow(ref.P)
			y2 := ref.FSqr(y)
			u, v, class = ref.FSub(y2, one), ref.FAdd(ref.FMul(ref.D, y2), one), "from-decoding"
		case 12:
			fa, fb := r.FieldValue(), r.FieldValue()
			u, v, class = fa.V, fb.V, "class-values"
		default:
			u, v, class = x, w, "uniform"
		}
		ue, ud := r.RandRepr(u)
		ve, vd := r.RandRepr(v)
		wantR, wantSq := ref.SqrtRatioM1(u, v)
		for alias := 0; alias < 3; alias++ {
			uc, vc := new(field.Element).Set(ue), new(field.Element).Set(ve)
			recv := new(field.Element)
			if alias == 1 {
				recv = uc
			} else if alias == 2 {
				recv = vc
			}
			var ret *field.Element
			var sq int
			pv := catch(func() { ret, sq = recv.SqrtRatio(uc, vc) })
			ub, vb := ref.FeBytes(u), ref.FeBytes(v)
			c.Eval(u.Sign() != 0 || v.Sign() != 0, []byte{byte(alias)}, ub[:], vb[:], []byte(ud), []byte(vd))
			c.Tally("class:" + class)
			det := map[string]any{"u": intHex(u), "v": intHex(v), "class": class, "u-repr": ud, "v-repr": vd, "alias": alias, "want-r": intHex(wantR), "want-square": wantSq}
			if pv != nil {
				det["panic"] = pv
				c.Fail("unexpected panic", det)
				continue
			}
			if ret != recv {
				c.Fail("returned pointer is not the receiver", det)
			}
			if sq != wantSq {
				det["got-square"] = sq
				c.Fail("wasSquare differs from the contract", det)
				continue
			}
			c.Tally([]string{"wasSquare:0", "wasSquare:1"}[wantSq])
			gb := recv.Bytes()
			if gb[0]&1 != 0 {
				det["got-r"] = hx(gb)
				c.Fail("returned root is odd (negative)", det)
				continue
			}
			c.checkFe(recv, wantR, "SqrtRatio", func() map[string]any { return det })
		}
		c.Sample(class, map[string]any{"u": intHex(u), "v": intHex(v), "class": class, "r": intHex(wantR), "wasSquare": wantSq})
	}
	_ = gen.NRecipes
}
