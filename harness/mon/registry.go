package mon

// Monitors maps property ids to their monitor.
var Monitors = map[string]func(*Ctx){
	"C01": C01,
}
