package mon

// Monitors maps property ids to their monitor.
var Monitors = map[string]func(*Ctx){
	"C01": C01,
	"C02": C02,
	"C03": C03,
	"C04": C04,
	"C05": C05,
	"C06": C06,
	"C07": C07,
	"C08": C08,
	"C09": C09,
	"C10": C10,
	"C11": C11,
	"C12": C12,
	"C13": C13,
	"C14": C14,
	"C15": C15,
	"C16": C16,
	"C17": C17,
	"C18": C18,
	"C19": C19,
	"C20": C20,
}
