package mon

import (
	"fmt"
	"math/big"

	"filippo.io/edwards25519"
	"verifharness/gen"
	"verifharness/ref"
)

// validPoint redraws the construction a few times if the library rejected valid coordinates
// (that rejection is C13's business); returns false if it never succeeded.
func validPoint(r *gen.Rand, p *gen.PC) bool {
	for k := 0; p.P == nil && k < 4; k++ {
		*p = r.PointFor(p.M, p.Class)
	}
	return p.P != nil
}

// pairFor builds the structured operand pair number combo (0..383): torsion pair (j1,j2)
// combined with prime-order parts {(0,0),(r,0),(0,r),(r,r),(r,-r),(r,r')}.
func pairFor(r *gen.Rand, combo int) (gen.PC, gen.PC) {
	T := ref.Torsion()
	j1, j2, kind := combo%8, (combo/8)%8, combo/64
	var k1, k2 *big.Int
	rr := r.Scalar().K
	if r.Chance(3, 4) {
		rr = big.NewInt(int64(1 + r.Intn(1<<20)))
	}
	r2 := big.NewInt(int64(1 + r.Intn(1<<20)))
	switch kind {
	case 0:
		k1, k2 = big.NewInt(0), big.NewInt(0)
	case 1:
		k1, k2 = rr, big.NewInt(0)
	case 2:
		k1, k2 = big.NewInt(0), rr
	case 3:
		k1, k2 = rr, rr
	case 4:
		k1, k2 = rr, ref.SNeg(rr)
	default:
		k1, k2 = rr, r2
	}
	B := ref.Base()
	m1 := ref.Add(ref.Mul(k1, B), T[j1])
	m2 := ref.Add(ref.Mul(k2, B), T[j2])
	names := []string{"0,0", "r,0", "0,r", "r,r", "r,-r", "r,r'"}
	return r.PointFor(m1, fmt.Sprintf("[%s]B+T%d", names[kind], j1)), r.PointFor(m2, fmt.Sprintf("[%s]B+T%d", names[kind], j2))
}

// C02: Add, Subtract, Negate, MultByCofactor are the complete group law.
func C02(c *Ctx) {
	n := c.N(72000, 1500000)
	for i := int64(0); i < n; i++ {
		if !c.Mine(i) {
			continue
		}
		r := c.Begin(i)
		var p, q gen.PC
		if i%3 != 2 {
			p, q = pairFor(r, int((i-i/3)%384))
			c.Bit("torsion-pair x prime-order-combination", 384, int((i-i/3)%384))
		} else {
			p, q = r.Point(), r.Point()
		}
		if !validPoint(r, &p) || !validPoint(r, &q) {
			c.Fail("construction", map[string]any{"why": "SetExtendedCoordinates rejected valid coordinates repeatedly"})
			continue
		}
		c.tallyPoint(p)
		c.tallyPoint(q)
		pe, qe := ref.Encode(p.M), ref.Encode(q.M)
		nontriv := !p.M.Eq(ref.Identity()) || !q.M.Eq(ref.Identity())
		if p.M.Eq(q.M) {
			c.Tally("relation:P==Q")
		}
		if p.M.Eq(ref.Neg(q.M)) {
			c.Tally("relation:P==-Q")
		}
		type opT struct {
			name string
			want ref.Pt
			run  func(v, a, b *edwards25519.Point) *edwards25519.Point
			bin  bool
		}
		ops := []opT{
			{"Add", ref.Add(p.M, q.M), func(v, a, b *edwards25519.Point) *edwards25519.Point { return v.Add(a, b) }, true},
			{"Subtract", ref.Sub(p.M, q.M), func(v, a, b *edwards25519.Point) *edwards25519.Point { return v.Subtract(a, b) }, true},
			{"Negate", ref.Neg(p.M), func(v, a, b *edwards25519.Point) *edwards25519.Point { return v.Negate(a) }, false},
			{"MultByCofactor", ref.Mul(big.NewInt(8), p.M), func(v, a, b *edwards25519.Point) *edwards25519.Point { return v.MultByCofactor(a) }, false},
		}
		var res []*edwards25519.Point
		var resM []ref.Pt
		var resName []string
		for oi, op := range ops {
			// receiver state: 0 zero value, 1 aliased to p, 2 aliased to q, 3 arbitrary other
			stt := r.Intn(4)
			a := new(edwards25519.Point).Set(p.P)
			b := new(edwards25519.Point).Set(q.P)
			if p.M.Eq(q.M) && r.Bool() && op.bin {
				b = a // same pointer for both operands
				if string(pe[:]) != string(qe[:]) {
					b = new(edwards25519.Point).Set(q.P)
				}
			}
			var v *edwards25519.Point
			switch stt {
			case 0:
				v = new(edwards25519.Point)
			case 1:
				v = a
			case 2:
				if op.bin {
					v = b
				} else {
					v = edwards25519.NewGeneratorPoint()
				}
			default:
				v = new(edwards25519.Point).Set(q.P)
			}
			var ret *edwards25519.Point
			pv := catch(func() { ret = op.run(v, a, b) })
			c.Eval(nontriv, []byte{byte(oi), byte(stt)}, pe[:], qe[:], []byte(p.Build), []byte(q.Build))
			c.Tally("op:" + op.name)
			det := map[string]any{"op": op.name, "P": hx(pe[:]) + " via " + p.Build, "Q": hx(qe[:]) + " via " + q.Build, "receiver-state": stt, "want": ptHex(op.want)}
			if pv != nil {
				det["panic"] = pv
				c.Fail("unexpected panic", det)
				continue
			}
			if ret != v {
				c.Fail("returned pointer is not the receiver", det)
			}
			if why, st := checkPoint(v, op.want); why != "" {
				det["why"] = why
				det["got"] = hx(st.Enc)
				c.Fail("wrong group-law result", det)
				continue
			}
			c.checkPointLimbs(v, op.name)
			res, resM, resName = append(res, v), append(resM, op.want), append(resName, fmt.Sprintf("%s result (receiver-state %d)", op.name, stt))
			c.Sample(op.name, map[string]any{"op": op.name, "P": hx(pe[:]) + " (" + p.Class + " via " + p.Build + ")", "Q": hx(qe[:]) + " (" + q.Class + " via " + q.Build + ")", "result": ptHex(op.want)})
		}
		// second round: the operands are the first round's results themselves (not copies), so
		// whatever state the producing operation left in them is what the next operation reads
		for k := 0; k < len(res); k++ {
			x, y := res[k], res[(k+1+r.Intn(len(res)))%len(res)]
			xm, ym := resM[k], ref.Pt{}
			for j := range res {
				if res[j] == y {
					ym = resM[j]
				}
			}
			var v *edwards25519.Point
			switch r.Intn(3) {
			case 0:
				v = new(edwards25519.Point)
			case 1:
				v = edwards25519.NewIdentityPoint()
			default:
				v, _ = new(edwards25519.Point).SetBytes(pe[:])
				if v == nil {
					v = new(edwards25519.Point)
				}
			}
			var want ref.Pt
			which := r.Intn(4)
			pv := catch(func() {
				switch which {
				case 0:
					want = ref.Add(xm, ym)
					v.Add(x, y)
				case 1:
					want = ref.Sub(xm, ym)
					v.Subtract(x, y)
				case 2:
					want = ref.Neg(xm)
					v.Negate(x)
				default:
					want = ref.Mul(big.NewInt(8), xm)
					v.MultByCofactor(x)
				}
			})
			c.Eval(nontriv, []byte{0xc2, byte(which), byte(k)}, pe[:], qe[:])
			c.Tally("chained op on a first-round result")
			det := map[string]any{"op": []string{"Add", "Subtract", "Negate", "MultByCofactor"}[which], "operand": resName[k], "P": hx(pe[:]) + " via " + p.Build, "Q": hx(qe[:]) + " via " + q.Build, "want": ptHex(want)}
			if pv != nil {
				det["panic"] = pv
				c.Fail("unexpected panic", det)
				continue
			}
			if why, st := checkPoint(v, want); why != "" {
				det["why"] = why
				det["got"] = hx(st.Enc)
				c.Fail("wrong group-law result on an operand produced by a previous operation", det)
			}
		}
	}
}
