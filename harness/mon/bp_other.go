//go:build !amd64

package mon

func getBP() uintptr { return 0 }

const bpAvailable = false
