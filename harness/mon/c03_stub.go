//go:build !verif_instr

package mon

const TraceAvailable = false

// C03 needs the instrumented build; without it nothing can be observed.
func C03(c *Ctx) {
	if c.Mode == "emit-images" {
		c03Emit(c)
		return
	}
	c.Inconclusive("source-level leakage tracer not available in this build configuration")
}
