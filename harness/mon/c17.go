package mon

import (
	"crypto/ecdh"

	"filippo.io/edwards25519"
	"verifharness/gen"
	"verifharness/raw"
	"verifharness/ref"
)

// C17: BytesMontgomery is the RFC 7748 birational map.
func C17(c *Ctx) {
	n := c.N(120000, 3000000)
	for i := int64(0); i < n; i++ {
		if !c.Mine(i) {
			continue
		}
		r := c.Begin(i)
		if i%5 == 4 {
			// second, independent oracle: crypto/ecdh X25519 public key of k
			k := r.Bytes(32)
			if i%25 == 24 {
				for j := range k {
					k[j] = []byte{0, 0xff, 0x55}[int(i/25)%3]
				}
			}
			s, err := new(edwards25519.Scalar).SetBytesWithClamping(k)
			if err != nil {
				c.Fail("SetBytesWithClamping rejected 32 bytes", nil)
				continue
			}
			p := new(edwards25519.Point).ScalarBaseMult(s)
			got := p.BytesMontgomery()
			priv, err := ecdh.X25519().NewPrivateKey(k)
			if err != nil {
				c.Inconclusive("crypto/ecdh rejected a key")
				continue
			}
			want := priv.PublicKey().Bytes()
			c.Eval(true, k, []byte("ecdh"))
			c.Tally("oracle:crypto/ecdh")
			if string(got) != string(want) {
				c.Fail("BytesMontgomery([clamp(k)]B) is not the X25519 public key", map[string]any{"k": hx(k), "got": hx(got), "want": hx(want)})
			}
			c.Sample("ecdh", map[string]any{"k": hx(k), "u": hx(want)})
			continue
		}
		m, cls := r.ModelPoint()
		pc := r.PointFor(m, cls)
		if !validPoint(r, &pc) {
			c.Fail("construction", map[string]any{"why": "valid coordinates rejected"})
			continue
		}
		want := ref.Montgomery(m)
		var got, got2 []byte
		before := raw.PointSnap(pc.P)
		pv := catch(func() { got = pc.P.BytesMontgomery(); got2 = pc.P.BytesMontgomery() })
		e := ref.Encode(m)
		c.Eval(!m.Eq(ref.Identity()), e[:], []byte(pc.Build))
		c.tallyPoint(pc)
		det := map[string]any{"P": hx(e[:]), "class": cls, "via": pc.Build, "got": hx(got), "want": hx(want[:])}
		if pv != nil {
			det["panic"] = pv
			c.Fail("unexpected panic", det)
			continue
		}
		if string(got) != string(want[:]) {
			c.Fail("BytesMontgomery differs from (1+y)/(1-y)", det)
			continue
		}
		if string(got2) != string(want[:]) {
			det["second-call"] = hx(got2)
			c.Fail("a second BytesMontgomery call on the same point returns something else", det)
			continue
		}
		if raw.PointSnap(pc.P) != before {
			c.Tally("BytesMontgomery rewrote its receiver (recorded, not a violation by itself)")
		}
		if why, _ := checkPoint(pc.P, m); why != "" {
			det["why"] = why
			c.Fail("after BytesMontgomery the point is no longer a valid representation of the same point", det)
			continue
		}
		// P and -P agree
		np := r.PointFor(ref.Neg(m), "neg")
		if np.P != nil {
			if string(np.P.BytesMontgomery()) != string(got) {
				c.Fail("BytesMontgomery(P) != BytesMontgomery(-P)", det)
			}
		}
		// a long-lived object: encoded, then given this case's point through an assigning method
		if i%2 == 0 {
			start := r.Point()
			if start.P != nil {
				obj := start.P
				obj.BytesMontgomery()
				if i%4 == 0 {
					obj.Bytes()
				}
				if how := reassign(r, obj, m, int(i/2)); how != "" {
					gotU := obj.BytesMontgomery()
					c.Eval(!m.Eq(ref.Identity()), e[:], []byte("long-lived"), []byte(how))
					c.Tally("long-lived object re-encoded after " + assignKey(how))
					if string(gotU) != string(want[:]) {
						c.Fail("an object that was encoded before and then given a new value has a different BytesMontgomery", map[string]any{"assignment": how, "want": hx(want[:]), "got": hx(gotU), "first-value": ptHex(start.M), "P": hx(e[:])})
					}
				}
			}
		}
		c.Sample(cls, map[string]any{"P": hx(e[:]), "class": cls, "via": pc.Build, "u": hx(want[:])})
	}
	_ = gen.NBuild
}
