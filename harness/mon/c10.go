package mon

import (
	"math/big"

	"filippo.io/edwards25519/field"
	"verifharness/gen"
	"verifharness/raw"
	"verifharness/ref"
)

func wideFieldCase(r *gen.Rand, i int64) ([]byte, string) {
	one := big.NewInt(1)
	b := make([]byte, 64)
	switch i % 8 {
	case 0:
		for k := range b {
			b[k] = 0xff
		}
		if k := int(i/8) % 513; k < 512 {
			b[k/8] ^= 1 << (k % 8)
		}
		return b, "all-ones-minus-bit"
	case 1:
		k := int(i/8) % 512
		b[k/8] = 1 << (k % 8)
		return b, "single-bit"
	case 2: // k*p +- 1
		k := r.BigBits(1 + r.Intn(257))
		x := new(big.Int).Mul(k, ref.P)
		x.Add(x, big.NewInt(int64(r.Intn(3)-1)))
		if x.Sign() < 0 || x.BitLen() > 512 {
			x = new(big.Int).Set(ref.P)
		}
		return ref.IntToLE(x, 64), "k*p+-1"
	case 3: // MSB patterns of both halves with boundary low parts
		lo := []*big.Int{new(big.Int).Sub(ref.P, one), ref.P, new(big.Int).Sub(ref.Two255, one), big.NewInt(0)}[r.Intn(4)]
		hi := []*big.Int{new(big.Int).Sub(ref.P, one), ref.P, new(big.Int).Sub(ref.Two255, one), big.NewInt(0), big.NewInt(1)}[r.Intn(5)]
		copy(b[:32], ref.IntToLE(lo, 32))
		copy(b[32:], ref.IntToLE(hi, 32))
		if r.Bool() {
			b[31] |= 0x80
		}
		if r.Bool() {
			b[63] |= 0x80
		}
		return b, "msb-patterns"
	case 4:
		copy(b[:32], r.Bytes(32))
		return b, "low-half-only"
	case 5:
		copy(b[32:], r.Bytes(32))
		return b, "high-half-only"
	default:
		return r.Bytes(64), "uniform"
	}
}

// C10: field encodings and predicates depend only on the value.
func C10(c *Ctx) {
	n := c.N(600000, 240000000)
	for i := int64(0); i < n; i++ {
		if !c.Mine(i) {
			continue
		}
		r := c.Begin(i)
		switch i % 5 {
		case 0: // SetBytes: ignore bit 255, map [p,2^255) to [0,19); Bytes canonical
			var b []byte
			class := "uniform"
			switch (i / 5) % 4 {
			case 0:
				k := int(i/20) % 76 // 19 non-canonical encodings x bit255 x (p-1, p-2 neighbours)
				x := new(big.Int).Add(ref.P, big.NewInt(int64(k%19)))
				bb := ref.IntToLE32(x)
				if k >= 19 && k < 38 {
					bb[31] |= 0x80
				}
				if k >= 38 {
					bb = ref.IntToLE32(new(big.Int).Sub(ref.P, big.NewInt(int64(k-37))))
					if k%2 == 0 {
						bb[31] |= 0x80
					}
				}
				b, class = bb[:], "around-p"
			case 1:
				fc := r.FieldValue()
				bb := ref.FeBytes(fc.V)
				if r.Bool() {
					bb[31] |= 0x80
				}
				b, class = bb[:], "class:"+fc.Class
			default:
				b = r.Bytes(32)
			}
			b = b[:32:32]
			e, err := new(field.Element).SetBytes(b)
			want := ref.FeFromBytes(b)
			c.Eval(true, []byte("SetBytes"), b)
			c.Tally("SetBytes:" + class)
			if err != nil {
				c.Fail("SetBytes rejected 32 bytes", map[string]any{"input": hx(b)})
				continue
			}
			c.checkFe(e, want, "SetBytes", func() map[string]any { return map[string]any{"input": hx(b), "class": class} })
			c.Sample("SetBytes:"+class, map[string]any{"input": hx(b), "value": intHex(want)})
		case 1: // SetWideBytes
			b, class := wideFieldCase(r, i/5)
			b = b[:64:64]
			recv := new(field.Element)
			e, err := recv.SetWideBytes(b)
			want := ref.Fe(ref.LEToInt(b))
			c.Eval(true, []byte("SetWideBytes"), b)
			c.Tally("SetWideBytes:" + class)
			if err != nil || e != recv {
				c.Fail("SetWideBytes failed on 64 bytes", map[string]any{"input": hx(b)})
				continue
			}
			c.checkFe(e, want, "SetWideBytes", func() map[string]any { return map[string]any{"input": hx(b), "class": class} })
			c.Sample("SetWideBytes:"+class, map[string]any{"input": hx(b), "value": intHex(want)})
		case 2: // Equal / IsNegative / Bytes across representations of the same value, and of neighbours
			fc := r.FieldValue()
			if (i/5)%3 == 0 {
				vals := []*big.Int{big.NewInt(0), big.NewInt(1), big.NewInt(18), big.NewInt(19), new(big.Int).Sub(ref.P, big.NewInt(1)), new(big.Int).Sub(ref.P, big.NewInt(19))}
				fc = gen.FC{V: vals[r.Intn(len(vals))], Class: "boundary"}
			}
			var reps []feOperand
			for k := 0; k < 4; k++ {
				var e *field.Element
				var d string
				if k == 0 {
					e, d = r.Repr(fc.V, int(i/5)%gen.NRecipes)
				} else {
					e, d = r.RandRepr(fc.V)
				}
				reps = append(reps, feOperand{fc.V, e, d})
			}
			other := ref.FAdd(fc.V, big.NewInt(int64(1+r.Intn(3))))
			if r.Bool() {
				other = ref.FNeg(fc.V)
			}
			oe, od := r.RandRepr(other)
			wb := ref.FeBytes(fc.V)
			for k, a := range reps {
				c.Tally("recipe:" + recipeKey("x/"+a.desc))
				det := func() map[string]any {
					return map[string]any{"value": intHex(fc.V), "repr": a.desc, "limbs": a.limbs()}
				}
				c.Eval(fc.V.BitLen() > 1, []byte("repr"), wb[:], []byte(a.desc))
				if got := a.e.Bytes(); string(got) != string(wb[:]) {
					d := det()
					d["got"] = hx(got)
					c.Fail("Bytes is not the canonical encoding of the value", d)
				}
				if got := a.e.IsNegative(); got != int(ref.Fe(fc.V).Bit(0)) {
					d := det()
					d["got"] = got
					c.Fail("IsNegative differs from the low bit of the reduced value", d)
				}
				b := reps[(k+1)%len(reps)]
				if got := a.e.Equal(b.e); got != 1 {
					d := det()
					d["other-repr"], d["got"] = b.desc, got
					c.Fail("Equal is not 1 for two representations of one value", d)
				}
				wantNe := 0
				if ref.Fe(other).Cmp(ref.Fe(fc.V)) == 0 {
					wantNe = 1
				}
				if got := a.e.Equal(oe); got != wantNe {
					d := det()
					d["other"], d["other-repr"], d["got"] = intHex(other), od, got
					c.Fail("Equal wrong for different values", d)
				}
			}
			c.Sample("predicates", map[string]any{"value": intHex(fc.V), "reprs": []string{reps[0].desc, reps[1].desc, reps[2].desc}})
		default: // Select / Swap choose or exchange bit for bit
			a, b := drawFe(r, i%2 == 0), drawFe(r, false)
			if !raw.ElementOK() {
				c.Inconclusive("raw layout guard failed: Select/Swap limbs not observed")
				// value-level only
			}
			for cond := 0; cond < 2; cond++ {
				al, bl := rawOr(a.e), rawOr(b.e)
				// Select into fresh / aliased receiver
				for alias := 0; alias < 3; alias++ {
					ac, bc := new(field.Element).Set(a.e), new(field.Element).Set(b.e)
					v := new(field.Element)
					if alias == 1 {
						v = ac
					} else if alias == 2 {
						v = bc
					}
					ret := v.Select(ac, bc, cond)
					want := bl
					if cond == 1 {
						want = al
					}
					c.Eval(true, []byte{byte(cond), byte(alias), 's'}, al[:], bl[:])
					c.Tally("Select")
					if ret != v || rawOr(v) != want {
						c.Fail("Select did not choose the operand exactly", map[string]any{"cond": cond, "alias": alias, "a": a.limbs(), "b": b.limbs(), "got": raw.FmtLimbs(raw.Limbs(v))})
					}
					if alias != 1 && rawOr(ac) != al || alias != 2 && rawOr(bc) != bl {
						c.Fail("Select modified an argument", map[string]any{"cond": cond, "alias": alias})
					}
				}
				ac, bc := new(field.Element).Set(a.e), new(field.Element).Set(b.e)
				ac.Swap(bc, cond)
				wa, wb := al, bl
				if cond == 1 {
					wa, wb = bl, al
				}
				c.Eval(true, []byte{byte(cond), 'w'}, al[:], bl[:])
				c.Tally("Swap")
				if rawOr(ac) != wa || rawOr(bc) != wb {
					c.Fail("Swap did not exchange the operands exactly", map[string]any{"cond": cond, "a": a.limbs(), "b": b.limbs()})
				}
				// self-swap leaves the value alone
				sc := new(field.Element).Set(a.e)
				sc.Swap(sc, cond)
				if rawOr(sc) != al {
					c.Fail("Swap(v, v) changed v", map[string]any{"cond": cond, "a": a.limbs()})
				}
			}
			c.Sample("select-swap", map[string]any{"a": a.desc, "b": b.desc})
		}
	}
}

// rawOr returns the raw bytes of e, or (guard failed) its canonical encoding padded.
func rawOr(e *field.Element) [40]byte {
	if raw.ElementOK() {
		return raw.ElementBytes(e)
	}
	var o [40]byte
	copy(o[:], e.Bytes())
	return o
}
