package mon

import (
	"reflect"
	"syscall"
	"unsafe"
)

// roArena is a page-aligned region bordered by PROT_NONE pages whose accessible part can be
// made read-only for the duration of a library call. Objects that a call must only READ
// (non-receiver arguments) are placed there: any store into them - including one that is
// undone before the call returns, which no before/after snapshot can see - is a fault, and a
// fault is attributed to the case in progress through the progress file.
type roArena struct {
	mem  []byte
	page int
	used int
	ro   bool
}

func newROArena(pages int) (*roArena, error) {
	pg := syscall.Getpagesize()
	mem, err := syscall.Mmap(-1, 0, (pages+2)*pg, syscall.PROT_READ|syscall.PROT_WRITE, syscall.MAP_ANON|syscall.MAP_PRIVATE)
	if err != nil {
		return nil, err
	}
	if err := syscall.Mprotect(mem[:pg], syscall.PROT_NONE); err != nil {
		return nil, err
	}
	if err := syscall.Mprotect(mem[(pages+1)*pg:], syscall.PROT_NONE); err != nil {
		return nil, err
	}
	return &roArena{mem: mem, page: pg}, nil
}

func (a *roArena) body() []byte { return a.mem[a.page : len(a.mem)-a.page] }

// reset forgets all placements (and makes the region writable).
func (a *roArena) reset() {
	a.protect(false)
	a.used = 0
}

func (a *roArena) protect(ro bool) {
	if a.ro == ro {
		return
	}
	prot := syscall.PROT_READ | syscall.PROT_WRITE
	if ro {
		prot = syscall.PROT_READ
	}
	if syscall.Mprotect(a.body(), prot) == nil {
		a.ro = ro
	}
}

// noPointers reports whether values of type t can live outside the Go heap.
func noPointers(t reflect.Type) bool {
	switch t.Kind() {
	case reflect.Bool, reflect.Int, reflect.Int8, reflect.Int16, reflect.Int32, reflect.Int64,
		reflect.Uint, reflect.Uint8, reflect.Uint16, reflect.Uint32, reflect.Uint64, reflect.Uintptr,
		reflect.Float32, reflect.Float64:
		return true
	case reflect.Array:
		return t.Len() == 0 || noPointers(t.Elem())
	case reflect.Struct:
		for i := 0; i < t.NumField(); i++ {
			if !noPointers(t.Field(i).Type) {
				return false
			}
		}
		return true
	}
	return false
}

// placeRO copies *src into the arena (16-byte aligned) and returns the copy, or src itself if
// the type holds pointers or the arena is full.
func placeRO[T any](a *roArena, src *T) *T {
	if a == nil || a.ro {
		return src
	}
	var z T
	sz := int(unsafe.Sizeof(z))
	if sz == 0 || !noPointers(reflect.TypeOf(z)) {
		return src
	}
	off := (a.used + 15) &^ 15
	if off+sz > len(a.body()) {
		return src
	}
	dst := (*T)(unsafe.Pointer(&a.body()[off]))
	*dst = *src
	a.used = off + sz
	return dst
}
