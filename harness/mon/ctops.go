package mon

import (
	"fmt"
	"math/big"

	"filippo.io/edwards25519"
	"filippo.io/edwards25519/field"
	"verifharness/ctops"
	"verifharness/gen"
	"verifharness/raw"
	"verifharness/ref"
)

// ctInputs is one secret assignment for a constant-time entry point.
type ctInputs = ctops.Inputs

// ctOp is a constant-time entry point: gen draws assignment number k (k = 0 is the
// reference assignment; higher k walk the adversarial classes, then uniform).
type ctOp struct {
	name string
	gen  func(r *gen.Rand, k int) ctInputs
	run  func(in *ctInputs)
	// variants with a different public shape get different names (e.g. MultiScalarMult/n=2)
}

// secret scalar classes for leakage comparison
func ctScalar(r *gen.Rand, k int) (*edwards25519.Scalar, string) {
	L := ref.L
	one := big.NewInt(1)
	special := []*big.Int{nil, big.NewInt(0), one, new(big.Int).Sub(L, one), big.NewInt(8), new(big.Int).Lsh(one, 252),
		ref.Sc(repB(0x88)), ref.Sc(repB(0x77)), ref.Sc(repB(0xff)), ref.Sc(repB(0x08)), ref.Sc(repB(0x80)), new(big.Int).Lsh(big.NewInt(8), 248), big.NewInt(16), big.NewInt(7)}
	if k > 0 && k < len(special) {
		return gen.LibScalar(special[k]), "scalar:" + []string{"", "0", "1", "l-1", "8", "2^252", "0x88..", "0x77..", "0xff..", "0x08..", "0x80..", "8*16^62", "16", "7"}[k]
	}
	if k >= len(special) && k%3 == 0 {
		sc := r.Scalar()
		return gen.LibScalar(sc.K), "scalar:" + sc.Class
	}
	return gen.LibScalar(r.BigBelow(L)), "scalar:uniform"
}

func repB(b byte) *big.Int {
	x := make([]byte, 32)
	for i := range x {
		x[i] = b
	}
	return new(big.Int).SetBytes(x)
}

// ctPoint: secret point classes. The K1 witness class (all-zero X limbs) is tagged.
func ctPoint(r *gen.Rand, k int) (*edwards25519.Point, string) {
	T := ref.Torsion()
	switch {
	case k == 1:
		return edwards25519.NewIdentityPoint(), "point:identity"
	case k == 2:
		return gen.K1Identity(), "point:identity-literal-zero-X"
	case k >= 3 && k < 11:
		p, _ := r.LibPoint(T[k-3], 0)
		return p, fmt.Sprintf("point:T%d", k-3)
	case k == 11:
		return edwards25519.NewGeneratorPoint(), "point:B"
	case k == 12: // order-2 point with literal zero X through SetExtendedCoordinates
		one := new(field.Element).One()
		m1 := new(field.Element).Negate(one)
		p, err := new(edwards25519.Point).SetExtendedCoordinates(new(field.Element), m1, one, new(field.Element))
		if err != nil {
			return edwards25519.NewIdentityPoint(), "point:identity"
		}
		return p, "point:order2-literal-zero-X"
	case k > 12 && k%4 == 0:
		pc := r.Point()
		if pc.P != nil {
			return pc.P, "point:" + buildKey(pc.Build)
		}
	}
	m := r.DecodedPoint()
	p, _ := r.LibPoint(m, r.Intn(gen.NBuild))
	if p == nil {
		p, _ = r.LibPoint(m, 0)
	}
	return p, "point:uniform"
}

func ctFe(r *gen.Rand, k int) (*field.Element, string) {
	P := ref.P
	special := []*big.Int{nil, big.NewInt(0), big.NewInt(1), new(big.Int).Sub(P, big.NewInt(1)), big.NewInt(2), ref.SqrtM1, new(big.Int).Sub(P, big.NewInt(19)), big.NewInt(18), ref.D}
	if k > 0 && k < len(special) {
		e, d := r.Repr(special[k], k%gen.NRecipes)
		return e, "fe:" + special[k].Text(16)[:min(8, len(special[k].Text(16)))] + "/" + recipeKey("x/"+d)
	}
	if k >= len(special) && k%3 == 0 {
		fc := r.FieldValue()
		e, d := r.RandRepr(fc.V)
		return e, "fe:" + fc.Class + "/" + recipeKey("x/"+d)
	}
	if k%5 == 0 {
		e, _, _ := r.MaxLimbOperand(31)
		return e, "fe:maxlimb"
	}
	return gen.Canon(r.BigBelow(P)), "fe:uniform"
}

// hasZeroXLimbs reports whether any point input is in the K1 witness class.
func hasZeroXLimbs(in *ctInputs) bool {
	if !raw.PointOK() {
		return false
	}
	for _, p := range in.Pts {
		l := raw.PointLimbs(p)
		if l[0] == [5]uint64{} {
			return true
		}
	}
	return false
}

// hasZeroLowXLimb reports whether any point input has a zero lowest X limb (without X being
// all zero): the second witness class of known finding K1 - checkInitialized's struct == is
// compiled to a memory comparison that stops at the first differing word, so its instruction
// trace depends on how many leading limbs of X are zero.
func hasZeroLowXLimb(in *ctInputs) bool {
	if !raw.PointOK() {
		return false
	}
	for _, p := range in.Pts {
		l := raw.PointLimbs(p)
		if l[0][0] == 0 && l[0] != [5]uint64{} {
			return true
		}
	}
	return false
}

func pointOp1(name string, f func(v, p *edwards25519.Point)) ctOp {
	return ctOp{name: name, gen: func(r *gen.Rand, k int) ctInputs {
		p, c := ctPoint(r, k)
		return ctInputs{Pts: []*edwards25519.Point{p}, Class: c}
	}, run: func(in *ctInputs) { f(in.OutP, in.Pts[0]) }}
}

func pointOp2(name string, f func(v, p, q *edwards25519.Point)) ctOp {
	return ctOp{name: name, gen: func(r *gen.Rand, k int) ctInputs {
		p, c1 := ctPoint(r, k)
		q, c2 := ctPoint(r, k/2+k%2*7)
		if k%6 == 5 { // equal operands
			q, c2 = new(edwards25519.Point).Set(p), "same"
		}
		return ctInputs{Pts: []*edwards25519.Point{p, q}, Class: c1 + "," + c2}
	}, run: func(in *ctInputs) { f(in.OutP, in.Pts[0], in.Pts[1]) }}
}

func scalarOpN(name string, n int, f func(v *edwards25519.Scalar, s []*edwards25519.Scalar)) ctOp {
	return ctOp{name: name, gen: func(r *gen.Rand, k int) ctInputs {
		in := ctInputs{}
		for j := 0; j < n; j++ {
			s, c := ctScalar(r, (k+j*5)%97)
			if j > 0 && k%7 == 6 {
				s, c = new(edwards25519.Scalar).Set(in.Scs[0]), "same"
			}
			in.Scs = append(in.Scs, s)
			in.Class += c + ","
		}
		return in
	}, run: func(in *ctInputs) { f(in.OutS, in.Scs) }}
}

func feOpN(name string, n int, f func(v *field.Element, e []*field.Element, in *ctInputs)) ctOp {
	return ctOp{name: name, gen: func(r *gen.Rand, k int) ctInputs {
		in := ctInputs{Cond: k % 2, U32: uint32(r.U64())}
		if k%4 == 1 {
			in.U32 = 0
		}
		if k%4 == 2 {
			in.U32 = 0xffffffff
		}
		for j := 0; j < n; j++ {
			e, c := ctFe(r, (k+j*3)%61)
			if j > 0 && k%7 == 6 {
				e, c = new(field.Element).Set(in.Fes[0]), "same"
			}
			in.Fes = append(in.Fes, e)
			in.Class += c + ","
		}
		in.Class += fmt.Sprintf("cond=%d", in.Cond)
		return in
	}, run: func(in *ctInputs) { f(in.OutE, in.Fes, in) }}
}

func multiOp(n int) ctOp {
	return ctOp{name: fmt.Sprintf("Point.MultiScalarMult/n=%d", n), gen: func(r *gen.Rand, k int) ctInputs {
		in := ctInputs{}
		for j := 0; j < n; j++ {
			s, c1 := ctScalar(r, (k+j)%97)
			p, c2 := ctPoint(r, (k+3*j)%53)
			in.Scs = append(in.Scs, s)
			in.Pts = append(in.Pts, p)
			in.Class += c1 + "*" + c2 + " "
		}
		return in
	}, run: func(in *ctInputs) { in.OutP.MultiScalarMult(in.Scs, in.Pts) }}
}

// CTOps is the list of constant-time entry points driven by the leakage monitors.
func ctGenTable() []ctOp {
	ops := []ctOp{
		{name: "Point.ScalarMult", gen: func(r *gen.Rand, k int) ctInputs {
			s, c1 := ctScalar(r, k)
			p, c2 := ctPoint(r, (k*7)%53)
			return ctInputs{Scs: []*edwards25519.Scalar{s}, Pts: []*edwards25519.Point{p}, Class: c1 + "," + c2}
		}, run: func(in *ctInputs) { in.OutP.ScalarMult(in.Scs[0], in.Pts[0]) }},
		{name: "Point.ScalarBaseMult", gen: func(r *gen.Rand, k int) ctInputs {
			s, c1 := ctScalar(r, k)
			return ctInputs{Scs: []*edwards25519.Scalar{s}, Class: c1}
		}, run: func(in *ctInputs) { in.OutP.ScalarBaseMult(in.Scs[0]) }},
		multiOp(0), multiOp(1), multiOp(2), multiOp(3),
		pointOp2("Point.Add", func(v, p, q *edwards25519.Point) { v.Add(p, q) }),
		pointOp2("Point.Subtract", func(v, p, q *edwards25519.Point) { v.Subtract(p, q) }),
		pointOp1("Point.Negate", func(v, p *edwards25519.Point) { v.Negate(p) }),
		pointOp1("Point.MultByCofactor", func(v, p *edwards25519.Point) { v.MultByCofactor(p) }),
		pointOp2("Point.Equal", func(v, p, q *edwards25519.Point) { p.Equal(q) }),
		pointOp1("Point.Bytes", func(v, p *edwards25519.Point) { p.Bytes() }),
		pointOp1("Point.BytesMontgomery", func(v, p *edwards25519.Point) { p.BytesMontgomery() }),
		pointOp1("Point.ExtendedCoordinates", func(v, p *edwards25519.Point) { p.ExtendedCoordinates() }),
		pointOp1("Point.Set", func(v, p *edwards25519.Point) { v.Set(p) }),
		{name: "Point.SetBytes(valid)", gen: func(r *gen.Rand, k int) ctInputs {
			T := ref.Torsion()
			var m ref.Pt
			cl := "uniform"
			switch {
			case k >= 1 && k <= 8:
				m, cl = T[k-1], fmt.Sprintf("T%d", k-1)
			case k == 9:
				m, cl = ref.Base(), "B"
			default:
				m = r.DecodedPoint()
			}
			enc := encOf(m)
			if k%5 == 4 {
				if nb := gen.NonCanonBytes(m.Y); nb != nil {
					nb[31] |= enc[31] & 0x80
					enc, cl = nb, cl+"-noncanonical"
				}
			}
			return ctInputs{Bytes: enc, Class: "encoding:" + cl}
		}, run: func(in *ctInputs) { in.OutP.SetBytes(in.Bytes) }},
		{name: "Point.SetExtendedCoordinates(valid)", gen: func(r *gen.Rand, k int) ctInputs {
			p, c := ctPoint(r, k)
			X, Y, Z, T := p.ExtendedCoordinates()
			return ctInputs{Fes: []*field.Element{X, Y, Z, T}, Class: c}
		}, run: func(in *ctInputs) {
			in.OutP.SetExtendedCoordinates(in.Fes[0], in.Fes[1], in.Fes[2], in.Fes[3])
		}},
		scalarOpN("Scalar.Add", 2, func(v *edwards25519.Scalar, s []*edwards25519.Scalar) { v.Add(s[0], s[1]) }),
		scalarOpN("Scalar.Subtract", 2, func(v *edwards25519.Scalar, s []*edwards25519.Scalar) { v.Subtract(s[0], s[1]) }),
		scalarOpN("Scalar.Multiply", 2, func(v *edwards25519.Scalar, s []*edwards25519.Scalar) { v.Multiply(s[0], s[1]) }),
		scalarOpN("Scalar.MultiplyAdd", 3, func(v *edwards25519.Scalar, s []*edwards25519.Scalar) { v.MultiplyAdd(s[0], s[1], s[2]) }),
		scalarOpN("Scalar.Negate", 1, func(v *edwards25519.Scalar, s []*edwards25519.Scalar) { v.Negate(s[0]) }),
		scalarOpN("Scalar.Invert", 1, func(v *edwards25519.Scalar, s []*edwards25519.Scalar) { v.Invert(s[0]) }),
		scalarOpN("Scalar.Equal", 2, func(v *edwards25519.Scalar, s []*edwards25519.Scalar) { s[0].Equal(s[1]) }),
		scalarOpN("Scalar.Bytes", 1, func(v *edwards25519.Scalar, s []*edwards25519.Scalar) { s[0].Bytes() }),
		scalarOpN("Scalar.Set", 1, func(v *edwards25519.Scalar, s []*edwards25519.Scalar) { v.Set(s[0]) }),
		{name: "Scalar.SetCanonicalBytes(valid)", gen: func(r *gen.Rand, k int) ctInputs {
			// The decoder's validity decision (is the input below l?) is exempt from the
			// property, but it runs on every input. Instead of exempting code by name, all
			// assignments are taken from the class on which any most-significant-first
			// comparison with l decides at its first step: top byte below l's top byte 0x10.
			s, c := ctScalar(r, k)
			b := s.Bytes()
			b[31] &= 0x0f
			return ctInputs{Bytes: b, Class: c + "(<2^252)"}
		}},
		{name: "Scalar.SetUniformBytes", gen: func(r *gen.Rand, k int) ctInputs {
			b := r.Bytes(64)
			cl := "uniform"
			switch k {
			case 1:
				b, cl = make([]byte, 64), "zero"
			case 2:
				for i := range b {
					b[i] = 0xff
				}
				cl = "ones"
			case 3:
				copy(b, make([]byte, 43))
				cl = "low-zero"
			}
			return ctInputs{Bytes: b, Class: "wide:" + cl}
		}, run: func(in *ctInputs) { in.OutS.SetUniformBytes(in.Bytes) }},
		{name: "Scalar.SetBytesWithClamping", gen: func(r *gen.Rand, k int) ctInputs {
			b := r.Bytes(32)
			cl := "uniform"
			switch k {
			case 1:
				b, cl = make([]byte, 32), "zero"
			case 2:
				for i := range b {
					b[i] = 0xff
				}
				cl = "ones"
			}
			return ctInputs{Bytes: b, Class: "clamp:" + cl}
		}, run: func(in *ctInputs) { in.OutS.SetBytesWithClamping(in.Bytes) }},
		feOpN("Element.Add", 2, func(v *field.Element, e []*field.Element, in *ctInputs) { v.Add(e[0], e[1]) }),
		feOpN("Element.Subtract", 2, func(v *field.Element, e []*field.Element, in *ctInputs) { v.Subtract(e[0], e[1]) }),
		feOpN("Element.Negate", 1, func(v *field.Element, e []*field.Element, in *ctInputs) { v.Negate(e[0]) }),
		feOpN("Element.Multiply", 2, func(v *field.Element, e []*field.Element, in *ctInputs) { v.Multiply(e[0], e[1]) }),
		feOpN("Element.Square", 1, func(v *field.Element, e []*field.Element, in *ctInputs) { v.Square(e[0]) }),
		feOpN("Element.Mult32", 1, func(v *field.Element, e []*field.Element, in *ctInputs) { v.Mult32(e[0], in.U32) }),
		feOpN("Element.Invert", 1, func(v *field.Element, e []*field.Element, in *ctInputs) { v.Invert(e[0]) }),
		feOpN("Element.Pow22523", 1, func(v *field.Element, e []*field.Element, in *ctInputs) { v.Pow22523(e[0]) }),
		feOpN("Element.Absolute", 1, func(v *field.Element, e []*field.Element, in *ctInputs) { v.Absolute(e[0]) }),
		feOpN("Element.SqrtRatio", 2, func(v *field.Element, e []*field.Element, in *ctInputs) { v.SqrtRatio(e[0], e[1]) }),
		feOpN("Element.Equal", 2, func(v *field.Element, e []*field.Element, in *ctInputs) { e[0].Equal(e[1]) }),
		feOpN("Element.IsNegative", 1, func(v *field.Element, e []*field.Element, in *ctInputs) { e[0].IsNegative() }),
		feOpN("Element.Bytes", 1, func(v *field.Element, e []*field.Element, in *ctInputs) { e[0].Bytes() }),
		feOpN("Element.Select", 2, func(v *field.Element, e []*field.Element, in *ctInputs) { v.Select(e[0], e[1], in.Cond) }),
		feOpN("Element.Swap", 2, func(v *field.Element, e []*field.Element, in *ctInputs) {
			a, b := in.OutE.Set(e[0]), in.OutF.Set(e[1])
			a.Swap(b, in.Cond)
		}),
		feOpN("Element.Set", 1, func(v *field.Element, e []*field.Element, in *ctInputs) { v.Set(e[0]) }),
		{name: "Element.SetBytes", gen: func(r *gen.Rand, k int) ctInputs {
			b := r.Bytes(32)
			if k == 1 {
				b = make([]byte, 32)
			}
			if k == 2 {
				for i := range b {
					b[i] = 0xff
				}
			}
			return ctInputs{Bytes: b, Class: "bytes"}
		}, run: func(in *ctInputs) { in.OutE.SetBytes(in.Bytes) }},
		{name: "Element.SetWideBytes", gen: func(r *gen.Rand, k int) ctInputs {
			b := r.Bytes(64)
			if k == 1 {
				b = make([]byte, 64)
			}
			if k == 2 {
				for i := range b {
					b[i] = 0xff
				}
			}
			return ctInputs{Bytes: b, Class: "bytes"}
		}, run: func(in *ctInputs) { in.OutE.SetWideBytes(in.Bytes) }},
	}
	return ops
}

// CTOps zips the generators above with the run-only table of package ctops (by name, in
// ctops' order); a name without a generator is a harness bug and panics at start-up.
func CTOps() []ctOp {
	gens := map[string]func(r *gen.Rand, k int) ctInputs{}
	for _, o := range ctGenTable() {
		gens[o.name] = o.gen
	}
	var out []ctOp
	for _, o := range ctops.Ops() {
		g, ok := gens[o.Name]
		if !ok {
			panic("mon: no generator for entry point " + o.Name)
		}
		run := o.Run
		out = append(out, ctOp{name: o.Name, gen: g, run: func(in *ctInputs) { run(in) }})
	}
	return out
}

// CTOpNames lists the entry points.
func CTOpNames() []string {
	var n []string
	for _, o := range ctops.Ops() {
		n = append(n, o.Name)
	}
	return n
}
