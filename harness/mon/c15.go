package mon

import (
	"fmt"

	"filippo.io/edwards25519"
	"verifharness/gen"
	"verifharness/ref"
)

// pointOp describes an exported Point operation for the misuse and aliasing monitors.
type pointOp struct {
	name string
	npts int // number of Point-typed inputs (not counting a pure receiver)
	nsc  int // number of scalars
	// run executes the operation: recv is the receiver (for Equal/Bytes/... it is an input
	// and is passed as pts[0]).
	run func(recv *edwards25519.Point, pts []*edwards25519.Point, scs []*edwards25519.Scalar) any
	// recvIsInput: the receiver itself is read (Equal, Bytes, BytesMontgomery, ExtendedCoordinates)
	recvIsInput bool
	model       func(pts []ref.Pt, ks []*bigInt) ref.Pt // nil when the result is not a point
}

type bigInt = gen.SC

var pointOps = []pointOp{
	{name: "Add", npts: 2, run: func(v *edwards25519.Point, p []*edwards25519.Point, s []*edwards25519.Scalar) any {
		return v.Add(p[0], p[1])
	},
		model: func(p []ref.Pt, k []*bigInt) ref.Pt { return ref.Add(p[0], p[1]) }},
	{name: "Subtract", npts: 2, run: func(v *edwards25519.Point, p []*edwards25519.Point, s []*edwards25519.Scalar) any {
		return v.Subtract(p[0], p[1])
	},
		model: func(p []ref.Pt, k []*bigInt) ref.Pt { return ref.Sub(p[0], p[1]) }},
	{name: "Negate", npts: 1, run: func(v *edwards25519.Point, p []*edwards25519.Point, s []*edwards25519.Scalar) any {
		return v.Negate(p[0])
	},
		model: func(p []ref.Pt, k []*bigInt) ref.Pt { return ref.Neg(p[0]) }},
	{name: "MultByCofactor", npts: 1, run: func(v *edwards25519.Point, p []*edwards25519.Point, s []*edwards25519.Scalar) any {
		return v.MultByCofactor(p[0])
	},
		model: func(p []ref.Pt, k []*bigInt) ref.Pt {
			return ref.Add(ref.Add(ref.Add(p[0], p[0]), ref.Add(p[0], p[0])), ref.Add(ref.Add(p[0], p[0]), ref.Add(p[0], p[0])))
		}},
	{name: "ScalarMult", npts: 1, nsc: 1, run: func(v *edwards25519.Point, p []*edwards25519.Point, s []*edwards25519.Scalar) any {
		return v.ScalarMult(s[0], p[0])
	},
		model: func(p []ref.Pt, k []*bigInt) ref.Pt { return ref.Mul(k[0].K, p[0]) }},
	{name: "ScalarBaseMult", npts: 0, nsc: 1, run: func(v *edwards25519.Point, p []*edwards25519.Point, s []*edwards25519.Scalar) any {
		return v.ScalarBaseMult(s[0])
	},
		model: func(p []ref.Pt, k []*bigInt) ref.Pt { return ref.Mul(k[0].K, ref.Base()) }},
	{name: "VarTimeDoubleScalarBaseMult", npts: 1, nsc: 2, run: func(v *edwards25519.Point, p []*edwards25519.Point, s []*edwards25519.Scalar) any {
		return v.VarTimeDoubleScalarBaseMult(s[0], p[0], s[1])
	}, model: func(p []ref.Pt, k []*bigInt) ref.Pt {
		return ref.Add(ref.Mul(k[0].K, p[0]), ref.Mul(k[1].K, ref.Base()))
	}},
	{name: "Equal", npts: 2, recvIsInput: true, run: func(v *edwards25519.Point, p []*edwards25519.Point, s []*edwards25519.Scalar) any {
		return p[0].Equal(p[1])
	}},
	{name: "Bytes", npts: 1, recvIsInput: true, run: func(v *edwards25519.Point, p []*edwards25519.Point, s []*edwards25519.Scalar) any {
		return p[0].Bytes()
	}},
	{name: "BytesMontgomery", npts: 1, recvIsInput: true, run: func(v *edwards25519.Point, p []*edwards25519.Point, s []*edwards25519.Scalar) any {
		return p[0].BytesMontgomery()
	}},
	{name: "ExtendedCoordinates", npts: 1, recvIsInput: true, run: func(v *edwards25519.Point, p []*edwards25519.Point, s []*edwards25519.Scalar) any {
		X, _, _, _ := p[0].ExtendedCoordinates()
		return X
	}},
}

// C15: misuse is loud.
func C15(c *Ctx) {
	n := c.N(90000, 2000000)
	for i := int64(0); i < n; i++ {
		if !c.Mine(i) {
			continue
		}
		r := c.Begin(i)
		part := i % 3
		switch part {
		case 0: // fixed-arity operations x every Point-typed input position (and pairs of positions)
			k := int(i / 3)
			op := pointOps[k%len(pointOps)]
			if op.npts == 0 {
				// no Point input: only the pure-receiver clause applies
				op = pointOps[(k+1)%len(pointOps)]
			}
			mask := 1 + (k/len(pointOps))%((1<<op.npts)-1) // non-empty subset of positions set to the zero value
			pts := make([]*edwards25519.Point, op.npts)
			var desc []string
			// several zero-value positions are the SAME zero-value object half of the time
			// (z.Add(z, z)-style misuse), distinct objects otherwise
			sharedZero := new(edwards25519.Point)
			share := r.Bool()
			for j := range pts {
				if mask&(1<<j) != 0 {
					pts[j] = new(edwards25519.Point)
					if share {
						pts[j] = sharedZero
					}
					desc = append(desc, "zero-value")
				} else {
					pc := r.Point()
					if pc.P == nil {
						pc.P = edwards25519.NewGeneratorPoint()
					}
					pts[j] = pc.P
					desc = append(desc, pc.Class+" via "+buildKey(pc.Build))
				}
			}
			scs := make([]*edwards25519.Scalar, op.nsc)
			for j := range scs {
				scs[j] = gen.LibScalar(r.Scalar().K)
			}
			// receiver state for the non-input receiver
			recv := new(edwards25519.Point)
			rs := r.Intn(4)
			if rs == 1 {
				recv = edwards25519.NewIdentityPoint()
			} else if rs == 2 {
				recv = edwards25519.NewGeneratorPoint()
			} else if rs == 3 && share {
				recv = sharedZero // the receiver is the zero-value input itself
			}
			if share {
				desc = append(desc, "(zero-value positions share one object)")
			}
			pv := catch(func() { op.run(recv, pts, scs) })
			c.Eval(true, []byte(op.name), []byte{byte(mask), byte(rs)}, []byte(fmt.Sprint(desc)))
			c.Tally("zero-value input: " + op.name)
			c.Bit("operation x zero-value position subset", len(pointOps)*4, (k%len(pointOps))*4+mask)
			if pv == nil {
				c.Fail("operation accepted an uninitialized Point input", map[string]any{"op": op.name, "inputs": desc, "receiver-state": rs})
			}
			c.Sample("zero-input:"+op.name, map[string]any{"op": op.name, "inputs": desc})
		case 1: // multi-scalar: zero-value element at each index; length mismatches
			k := int(i / 3)
			vt := k%2 == 1
			name := "MultiScalarMult"
			if vt {
				name = "VarTimeMultiScalarMult"
			}
			call := func(v *edwards25519.Point, s []*edwards25519.Scalar, p []*edwards25519.Point) {
				if vt {
					v.VarTimeMultiScalarMult(s, p)
				} else {
					v.MultiScalarMult(s, p)
				}
			}
			if (k/2)%2 == 0 {
				nn := 1 + (k/4)%5
				idx := (k / 20) % nn
				pts := make([]*edwards25519.Point, nn)
				scs := make([]*edwards25519.Scalar, nn)
				for j := range pts {
					pc := r.Point()
					if pc.P == nil {
						pc.P = edwards25519.NewGeneratorPoint()
					}
					pts[j] = pc.P
					scs[j] = gen.LibScalar(r.Scalar().K)
				}
				pts[idx] = new(edwards25519.Point)
				if r.Chance(1, 4) { // the scalar for that index is zero: still must panic
					scs[idx] = edwards25519.NewScalar()
				}
				recv := new(edwards25519.Point)
				if r.Bool() {
					recv = edwards25519.NewGeneratorPoint()
				}
				pv := catch(func() { call(recv, scs, pts) })
				c.Eval(true, []byte(name), []byte{byte(nn), byte(idx)}, scs[0].Bytes())
				c.Tally("zero-value element: " + name)
				c.Bit("multi-scalar (n, zero index)", 2*5*5, (k%2)*25+(nn-1)*5+idx)
				if pv == nil {
					c.Fail("multi-scalar call accepted an uninitialized Point element", map[string]any{"op": name, "n": nn, "index": idx})
				}
				c.Sample("zero-element:"+name, map[string]any{"op": name, "n": nn, "index": idx})
			} else {
				ns, np := (k/4)%5, (k/20)%5
				if ns == np {
					np = (np + 1) % 5
				}
				scs := make([]*edwards25519.Scalar, ns)
				pts := make([]*edwards25519.Point, np)
				for j := range scs {
					scs[j] = gen.LibScalar(r.Scalar().K)
				}
				for j := range pts {
					pts[j] = edwards25519.NewGeneratorPoint()
				}
				if ns == 0 && r.Bool() {
					scs = nil
				}
				if np == 0 && r.Bool() {
					pts = nil
				}
				recv := new(edwards25519.Point)
				pv := catch(func() { call(recv, scs, pts) })
				c.Eval(true, []byte(name), []byte{byte(ns), byte(np), byte(k % 2)})
				c.Tally("length mismatch: " + name)
				c.Bit("multi-scalar length pairs", 2*25, (k%2)*25+ns*5+np)
				if pv == nil {
					c.Fail("multi-scalar call accepted slices of different lengths", map[string]any{"op": name, "len(scalars)": ns, "len(points)": np})
				}
				c.Sample("length-mismatch:"+name, map[string]any{"op": name, "len(scalars)": ns, "len(points)": np})
			}
		default: // a zero-value Point is acceptable as a pure receiver, and the result is right
			k := int(i / 3)
			op := pointOps[k%len(pointOps)]
			for op.recvIsInput {
				k++
				op = pointOps[k%len(pointOps)]
			}
			var pcs []gen.PC
			pts := make([]*edwards25519.Point, op.npts)
			ms := make([]ref.Pt, op.npts)
			for j := range pts {
				pc := r.Point()
				if !validPoint(r, &pc) {
					pc.P, pc.M = edwards25519.NewGeneratorPoint(), ref.Base()
				}
				pcs = append(pcs, pc)
				pts[j], ms[j] = pc.P, pc.M
			}
			scs := make([]*edwards25519.Scalar, op.nsc)
			ks := make([]*bigInt, op.nsc)
			for j := range scs {
				sc := r.Scalar()
				ks[j] = &sc
				scs[j] = gen.LibScalar(sc.K)
			}
			recv := new(edwards25519.Point)
			var ret any
			pv := catch(func() { ret = op.run(recv, pts, scs) })
			c.Eval(true, []byte("recv"), []byte(op.name), []byte(fmt.Sprint(len(pcs))), func() []byte {
				if len(ms) > 0 {
					return encOf(ms[0])
				}
				return scs[0].Bytes()
			}())
			c.Tally("zero-value pure receiver: " + op.name)
			if pv != nil {
				c.Fail("zero-value Point rejected as a pure receiver", map[string]any{"op": op.name, "panic": pv})
				continue
			}
			if ret != any(recv) {
				c.Fail("returned pointer is not the receiver", map[string]any{"op": op.name})
			}
			if why, st := checkPoint(recv, op.model(ms, ks)); why != "" {
				c.Fail("wrong result with a zero-value receiver", map[string]any{"op": op.name, "why": why, "got": hx(st.Enc)})
			}
			// also the multi-scalar routines and the setters/constructors with a zero-value receiver
			if k%4 == 0 {
				for _, vt := range []bool{false, true} {
					v := new(edwards25519.Point)
					sc := r.Scalar()
					pc := r.Point()
					if !validPoint(r, &pc) {
						continue
					}
					pv := catch(func() {
						if vt {
							v.VarTimeMultiScalarMult([]*edwards25519.Scalar{gen.LibScalar(sc.K)}, []*edwards25519.Point{pc.P})
						} else {
							v.MultiScalarMult([]*edwards25519.Scalar{gen.LibScalar(sc.K)}, []*edwards25519.Point{pc.P})
						}
					})
					c.Eval(true, []byte("recv-multi"), encOf(pc.M), []byte(intHex(sc.K)))
					c.Tally("zero-value pure receiver: multi-scalar")
					if pv != nil {
						c.Fail("zero-value Point rejected as a pure receiver", map[string]any{"op": "multi-scalar", "vartime": vt, "panic": pv})
					} else if why, _ := checkPoint(v, ref.Mul(sc.K, pc.M)); why != "" {
						c.Fail("wrong result with a zero-value receiver", map[string]any{"op": "multi-scalar", "vartime": vt, "why": why})
					}
				}
				// Set is exempt: copying a zero value must not panic
				if pv := catch(func() { new(edwards25519.Point).Set(new(edwards25519.Point)) }); pv != nil {
					c.Fail("Set panicked on a zero-value Point (Set is exempt)", map[string]any{"panic": pv})
				}
			}
			c.Sample("pure-receiver:"+op.name, map[string]any{"op": op.name})
		}
	}
}
