package mon

import (
	"encoding/hex"
	"math/big"

	"filippo.io/edwards25519"
	"filippo.io/edwards25519/field"
	"verifharness/gen"
	"verifharness/raw"
	"verifharness/ref"
)

func digestsHex(m map[string][32]byte) map[string]string {
	o := map[string]string{}
	for k, v := range m {
		o[k] = hex.EncodeToString(v[:8])
	}
	return o
}

// C12: every reachable Point is a valid curve point.
func C12(c *Ctx) {

	WarmTables()
	var snap globalsSnapshot
	if GlobalsAvailable {
		snap = GlobalsDigests()
	}
	n := c.N(2000, 100000)
	for i := int64(0); i < n; i++ {
		if !c.Mine(i) {
			continue
		}
		r := c.Begin(i)
		h := newHistory(c, r, 6, 4)
		h.globals = snap
		steps := 30 + r.Intn(170)
		for s := 0; s < steps && !h.dead; s++ {
			h.step()
		}
		if !h.dead {
			h.sweep()
		}
		c.Tally("programs")
		c.Sample("program", map[string]any{"steps": steps, "first-steps": h.log[:min(len(h.log), 16)]})
	}
	if GlobalsAvailable {
		c.checkGlobals(snap, "end of run")
		c.Res.Extra["final-globals-digest"] = digestsHex(GlobalsDigests())
	}
}

func min(a, b int) int {
	if a < b {
		return a
	}
	return b
}

// probeCache holds model answers for the fixed probe scalars.
var probeKs []*big.Int
var probeWant []ref.Pt

func initProbes() {
	if probeKs != nil {
		return
	}
	for _, s := range []string{"1", "2", "8", "f", "10", "123456789abcdef", "8888888888888888888888888888888888888888888888888888888888888888", "aaaaaaaaaaaaaaaaaaaaaaaaaaaaaaaaaaaaaaaaaaaaaaaaaaaaaaaaaaaaaaaa"} {
		k, _ := new(big.Int).SetString(s, 16)
		k = ref.Sc(k)
		probeKs = append(probeKs, k)
		probeWant = append(probeWant, ref.Mul(k, ref.Base()))
	}
	lm1 := new(big.Int).Sub(ref.L, big.NewInt(1))
	probeKs = append(probeKs, lm1)
	probeWant = append(probeWant, ref.Mul(lm1, ref.Base()))
}

// probe re-evaluates a fixed set of calls whose answers are known from the model.
func (h *history) probe(when string) {
	c := h.c
	initProbes()
	fail := func(what string, extra map[string]any) {
		if extra == nil {
			extra = map[string]any{}
		}
		extra["probe"], extra["when"] = what, when
		c.Fail("a later call changed its output after a returned value was mutated", h.det(extra))
		h.dead = true
	}
	c.Tally("probe rounds")
	zero := edwards25519.NewScalar()
	if string(zero.Bytes()) != string(make([]byte, 32)) {
		fail("NewScalar", nil)
	}
	id := edwards25519.NewIdentityPoint()
	if why, _ := checkPoint(id, ref.Identity()); why != "" {
		fail("NewIdentityPoint", map[string]any{"why": why})
	}
	g := edwards25519.NewGeneratorPoint()
	if why, _ := checkPoint(g, ref.Base()); why != "" {
		fail("NewGeneratorPoint", map[string]any{"why": why})
	}
	for i, k := range probeKs {
		if h.r.Intn(3) != 0 && i > 1 {
			continue
		}
		s := gen.LibScalar(k)
		p := new(edwards25519.Point).ScalarBaseMult(s)
		if why, _ := checkPoint(p, probeWant[i]); why != "" {
			fail("ScalarBaseMult", map[string]any{"k": intHex(k), "why": why})
		}
		q := new(edwards25519.Point).VarTimeDoubleScalarBaseMult(zero, g, s)
		if why, _ := checkPoint(q, probeWant[i]); why != "" {
			fail("VarTimeDoubleScalarBaseMult", map[string]any{"k": intHex(k), "why": why})
		}
		q2 := new(edwards25519.Point).ScalarMult(s, g)
		if why, _ := checkPoint(q2, probeWant[i]); why != "" {
			fail("ScalarMult(k, NewGeneratorPoint())", map[string]any{"k": intHex(k), "why": why})
		}
		c.Eval(true, []byte("probe"), []byte(when), []byte(intHex(k)))
	}
	// field-level constants: One/Zero and a decoding that uses d and sqrt(-1)
	one, zf := new(field.Element).One(), new(field.Element).Zero()
	if string(one.Bytes()) != string(append([]byte{1}, make([]byte, 31)...)) || string(zf.Bytes()) != string(make([]byte, 32)) {
		fail("field One/Zero", nil)
	}
	m := h.r.DecodedPoint()
	enc := encOf(m)
	if p, err := new(edwards25519.Point).SetBytes(enc); err != nil {
		fail("SetBytes of a valid encoding", map[string]any{"enc": hx(enc)})
	} else if why, _ := checkPoint(p, m); why != "" {
		fail("SetBytes", map[string]any{"enc": hx(enc), "why": why})
	}
	if r2, w := new(field.Element).SqrtRatio(gen.Canon(big.NewInt(2)), one); w != 0 || string(r2.Bytes()) != string(func() []byte {
		x, _ := ref.SqrtRatioM1(big.NewInt(2), big.NewInt(1))
		b := ref.FeBytes(x)
		return b[:]
	}()) {
		fail("SqrtRatio(2,1)", nil)
	}
	// pool members still encode as the model says
	for i, p := range h.pts {
		if why, _ := checkPoint(p, h.mpts[i]); why != "" {
			fail("pool point", map[string]any{"slot": i, "why": why})
		}
	}
	for i, s := range h.scs {
		kb := ref.IntToLE32(h.msc[i])
		if string(s.Bytes()) != string(kb[:]) {
			fail("pool scalar", map[string]any{"slot": i})
		}
	}
	if h.globals != nil {
		c.checkGlobals(h.globals, when)
	}
}

// scribbleStep overwrites one previously returned value, through the API and raw.
func (h *history) scribbleStep() {
	c, r := h.c, h.r
	switch r.Intn(5) {
	case 0:
		if len(h.retBytes) > 0 {
			b := h.retBytes[r.Intn(len(h.retBytes))]
			nb, zero := r.Bytes(len(b)), r.Bool()
			c.rawWrite("returned byte slice", func() map[string]any { return h.det(nil) }, func() {
				copy(b, nb)
				if zero {
					for i := range b {
						b[i] = 0
					}
				}
			})
			h.log = append(h.log, "scribble over a Bytes result")
			c.Tally("scribble:bytes")
		}
	case 1:
		if len(h.retElems) > 0 {
			e := h.retElems[r.Intn(len(h.retElems))]
			if r.Bool() {
				e.Set(gen.Canon(r.BigBelow(ref.P)))
			} else {
				h.scribbleElemRaw(e, [5]uint64{r.U64() >> 13, r.U64() >> 13, 0, r.U64() >> 13, 1}, "element returned by ExtendedCoordinates")
			}
			h.log = append(h.log, "scribble over an ExtendedCoordinates element")
			c.Tally("scribble:element")
		}
	case 2:
		p := edwards25519.NewGeneratorPoint()
		if r.Bool() {
			p = edwards25519.NewIdentityPoint()
		}
		if len(h.retPts) > 0 && r.Bool() {
			p = h.retPts[r.Intn(len(h.retPts))]
		}
		switch r.Intn(3) {
		case 0:
			p.Set(h.pts[r.Intn(len(h.pts))])
		case 1:
			var l [4][5]uint64
			for i := range l {
				for j := range l[i] {
					l[i][j] = r.U64() >> 13
				}
			}
			if raw.PointOK() {
				c.rawWrite("Point returned by a constructor", func() map[string]any { return h.det(nil) }, func() { raw.SetPointLimbs(p, l) })
			} else {
				p.Subtract(p, edwards25519.NewGeneratorPoint())
			}
		default:
			p.Add(p, h.pts[r.Intn(len(h.pts))])
		}
		h.log = append(h.log, "scribble over a constructor-returned Point")
		c.Tally("scribble:point")
	case 3:
		s := edwards25519.NewScalar()
		s.Add(s, gen.LibScalar(r.BigBelow(ref.L)))
		if l := [4]uint64{r.U64(), r.U64(), r.U64(), r.U64() >> 4}; raw.ScalarOK() {
			c.rawWrite("Scalar returned by NewScalar", func() map[string]any { return h.det(nil) }, func() { raw.SetScalarLimbs(s, l) })
		} else {
			s.Negate(s)
		}
		h.log = append(h.log, "scribble over a NewScalar result")
		c.Tally("scribble:scalar")
	default:
		// field constructors: One()/Zero() results are the receiver; mutate them
		e := new(field.Element).One()
		e.Add(e, e)
		h.scribbleElemRaw(e, [5]uint64{r.U64() >> 13, 7, 7, 7, 7}, "Element returned by One()")
		z := new(field.Element).Zero()
		z.Subtract(z, e)
		h.log = append(h.log, "scribble over One()/Zero() receivers")
		c.Tally("scribble:field-constructors")
	}
}

// scribbleElemRaw is scribbleElem with the raw store bracketed by package-state digests.
func (h *history) scribbleElemRaw(e *field.Element, l [5]uint64, what string) {
	if raw.ElementOK() {
		h.c.rawWrite(what, func() map[string]any { return h.det(nil) }, func() { raw.SetLimbs(e, l) })
		return
	}
	scribbleElem(e, l)
}

// scribbleElem overwrites e: raw limbs when the layout is the known one, else through Set.
func scribbleElem(e *field.Element, l [5]uint64) {
	if raw.ElementOK() {
		raw.SetLimbs(e, l)
		return
	}
	e.Set(gen.Canon(raw.LimbValue(l).Mod(raw.LimbValue(l), ref.P)))
}

// C19: returned values are fresh; operations are pure functions of their arguments.
func C19(c *Ctx) {
	if !raw.PointOK() || !raw.ScalarOK() || !raw.ElementOK() {
		c.Inconclusive("raw layout guard failed: mutation steps use the public API only (no raw scribbling)")
	}
	cold := c.Worker%2 == 1
	var snap globalsSnapshot
	if !cold {
		WarmTables()
		if GlobalsAvailable {
			snap = GlobalsDigests()
		}
		c.Tally("processes with tables warmed before any mutation")
	} else {
		c.Tally("processes whose first table use comes after mutations")
	}
	n := c.N(3000, 150000)
	for i := int64(0); i < n; i++ {
		if !c.Mine(i) {
			continue
		}
		r := c.Begin(i)
		h := newHistory(c, r, 5, 3)
		h.scribble = true
		h.globals = snap
		// distinct results do not share memory
		b1, b2 := h.pts[0].Bytes(), h.pts[0].Bytes()
		m1, m2 := h.pts[0].BytesMontgomery(), h.scs[0].Bytes()
		if &b1[0] == &b2[0] || &b1[0] == &m1[0] || &b1[0] == &m2[0] {
			c.Fail("two returned byte slices share memory", h.det(nil))
		}
		h.retBytes = append(h.retBytes, b1, m1, m2)
		steps := 20 + r.Intn(100)
		for s := 0; s < steps && !h.dead; s++ {
			if cold && snap == nil && s < 6 {
				// before the first table use: only table-free steps and scribbles
				h.scribbleStep()
				continue
			}
			if cold && snap == nil {
				h.probe("first table use after mutations")
				if GlobalsAvailable {
					snap = GlobalsDigests()
					h.globals = snap
				}
				continue
			}
			if r.Chance(1, 4) {
				h.scribbleStep()
				h.probe("after scribble")
			} else {
				h.step()
			}
		}
		if !h.dead {
			h.probe("end of program")
		}
		c.Tally("programs")
		c.Sample("program", map[string]any{"steps": steps, "cold": cold, "tail": h.log[len(h.log)-min(len(h.log), 12):]})
	}
	if GlobalsAvailable {
		WarmTables()
		c.Res.Extra["final-globals-digest"] = digestsHex(GlobalsDigests())
	}
}
