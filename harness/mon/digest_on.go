//go:build verif_globals

package mon

import (
	"filippo.io/edwards25519"
	"filippo.io/edwards25519/field"
	"filippo.io/edwards25519/verifct"
)

// GlobalsAvailable reports whether the generated digest hook was injected into this build.
const GlobalsAvailable = true

// GlobalsDigests returns per-variable digests of both packages' package-level state.
func GlobalsDigests() map[string][32]byte {
	m := map[string][32]byte{}
	for k, v := range edwards25519.VerifGlobalsDigests() {
		m["edwards25519."+k] = v
	}
	for k, v := range field.VerifGlobalsDigests() {
		m["field."+k] = v
	}
	return m
}

func combineDigests(m map[string][32]byte) [32]byte { return verifct.Combine(m) }
