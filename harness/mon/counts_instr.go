//go:build verif_instr

package mon

import (
	"sync/atomic"

	"filippo.io/edwards25519/verifct"
)

// CountsAvailable: the instrumented build carries per-site atomic counters.
const CountsAvailable = true

func countMode(on bool) {
	if on {
		atomic.StoreInt32(&verifct.Mode, 2)
	} else {
		atomic.StoreInt32(&verifct.Mode, 0)
	}
}

func countsSnapshot() []int64 {
	out := make([]int64, len(verifct.Counts))
	for i := range out {
		out[i] = atomic.LoadInt64(&verifct.Counts[i])
	}
	return out
}

func siteName(i int) string { return verifct.SiteNames[i] }

func onceLitSites() []uint32  { return verifct.OnceLit }
func onceHostSites() []uint32 { return verifct.OnceHost }

func maxInflight(site uint32) int64 { return atomic.LoadInt64(&verifct.MaxInfl[site]) }

func setDelay(site int, ns int64) {
	if site >= 0 && site < len(verifct.Delays) {
		atomic.StoreInt64(&verifct.Delays[site], ns)
	}
}

func siteIsEntry(i int) bool {
	n := verifct.SiteNames[i]
	return len(n) > 8 && n[len(n)-8:] == ":entry#1"
}
