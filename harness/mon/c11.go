package mon

import (
	"fmt"
	"math/big"

	"filippo.io/edwards25519"
	"filippo.io/edwards25519/field"
	"verifharness/gen"
	"verifharness/raw"
	"verifharness/ref"
)

// partitions returns all set partitions of n positions as restricted growth strings
// (block index per position, first occurrence order).
func partitions(n int) [][]int {
	var out [][]int
	cur := make([]int, n)
	var rec func(i, maxb int)
	rec = func(i, maxb int) {
		if i == n {
			out = append(out, append([]int(nil), cur...))
			return
		}
		for b := 0; b <= maxb+1; b++ {
			cur[i] = b
			m := maxb
			if b > maxb {
				m = b
			}
			rec(i+1, m)
		}
	}
	if n > 0 {
		cur[0] = 0
		rec(1, 0)
	}
	return out
}

// aliasType bundles what the aliasing monitor needs to know about a value type.
type aliasType[T any] struct {
	tname string
	gen   func(r *gen.Rand) *T // a fresh value in fresh storage
	clone func(*T) *T
	snap  func(*T) string // raw memory
	enc   func(*T) string // value-level observation (encoding); "" + ok=false if invalid
}

// aliasOp is one exported method: position 0 is the receiver, 1..nargs the pointer
// arguments of the same type.
type aliasOp[T any] struct {
	name       string
	nargs      int
	writesRecv bool
	writesArg  int                                            // index of an argument that is also written (Swap), or 0
	extra      func(r *gen.Rand) any                          // additional by-value parameters, drawn once per case
	run        func(pos []*T, extra any) (ret *T, out string) // out: non-pointer results (ints, bytes), compared too
	ok         func(vals []*T, extra any) bool                // optional precondition on the drawn values
}

// argArena holds the read-only arguments of the distinct-storage run (nil if mmap failed).
var argArena, _ = newROArena(2)

func runAlias[T any](c *Ctx, r *gen.Rand, at aliasType[T], op aliasOp[T], part []int, opIdx int) {
	n := op.nargs + 1
	nb := 0
	for _, b := range part {
		if b+1 > nb {
			nb = b + 1
		}
	}
	vals := make([]*T, nb)
	for i := range vals {
		vals[i] = at.gen(r)
	}
	var extra any
	if op.extra != nil {
		extra = op.extra(r)
	}
	// value-level observation of every drawn value, taken on throw-away clones (a broken
	// library may rewrite what it observes)
	valEnc := make([]string, nb)
	for i := range vals {
		valEnc[i] = at.enc(at.clone(vals[i]))
	}
	// distinct storage: every position its own copy
	dpos := make([]*T, n)
	for i := 0; i < n; i++ {
		dpos[i] = at.clone(vals[part[i]])
	}
	if !op.writesRecv {
		// reader methods: position 0 is an input like the others
	}
	// aliased storage: one object per block
	objs := make([]*T, nb)
	for i := range objs {
		objs[i] = at.clone(vals[i])
	}
	apos := make([]*T, n)
	for i := 0; i < n; i++ {
		apos[i] = objs[part[i]]
	}
	before := make([]string, nb)
	for i := range objs {
		before[i] = at.snap(objs[i])
	}
	dbefore := make([]string, n)
	for i := range dpos {
		dbefore[i] = at.snap(dpos[i])
	}
	// distinct-storage run: every argument that the method may only read lives in read-only
	// memory while the method runs ("arguments are never modified" observed exactly: a store
	// that is undone before returning is invisible to the snapshots below, not to the MMU)
	if argArena != nil {
		argArena.reset()
		for i := 1; i < n; i++ {
			if i != op.writesArg {
				dpos[i] = placeRO(argArena, dpos[i])
			}
		}
		argArena.protect(true)
		c.Tally("calls with their read-only arguments in read-only memory")
	}
	var dret, aret *T
	var dout, aout string
	pvd := catch(func() { dret, dout = op.run(dpos, extra) })
	if argArena != nil {
		argArena.protect(false)
	}
	pva := catch(func() { aret, aout = op.run(apos, extra) })
	partS := fmt.Sprint(part)
	c.Eval(true, []byte(at.tname+"."+op.name), []byte(partS), []byte(before[0]), []byte(before[nb-1]), []byte(fmt.Sprint(extra)))
	c.Tally(at.tname + "." + op.name)
	c.Bit("method x partition", 64*16, opIdx*16+partIndex(part))
	det := map[string]any{"method": at.tname + "." + op.name, "partition": partS, "extra": fmt.Sprint(extra)}
	for i := range vals {
		det[fmt.Sprintf("value%d", i)] = valEnc[i]
	}
	if pvd != nil || pva != nil {
		if (pvd == nil) != (pva == nil) {
			det["panic-distinct"], det["panic-aliased"] = pvd, pva
			c.Fail("aliasing changes whether the call panics", det)
		}
		return
	}
	if op.writesRecv {
		if aret != nil && aret != apos[0] {
			c.Fail("returned pointer is not the receiver", det)
		}
		de, ae := at.enc(dpos[0]), at.enc(apos[0])
		if de != ae {
			det["distinct-storage-result"], det["aliased-result"] = de, ae
			c.Fail("result differs when receiver/arguments alias", det)
		}
	}
	_ = dret
	if dout != aout {
		det["distinct-storage-output"], det["aliased-output"] = dout, aout
		c.Fail("output differs when arguments alias", det)
	}
	// arguments never modified: aliased run — every block not containing a written position
	written := map[int]bool{}
	if op.writesRecv {
		written[part[0]] = true
	}
	if op.writesArg > 0 {
		written[part[op.writesArg]] = true
	}
	for b := range objs {
		if !written[b] && at.snap(objs[b]) != before[b] {
			if !op.writesRecv && b == part[0] {
				if at.enc(objs[b]) != valEnc[b] {
					det["block"] = b
					c.Fail("a reading method changed the value of its receiver (aliased run)", det)
				}
				continue
			}
			det["block"] = b
			c.Fail("a non-receiver argument was modified (aliased run)", det)
		}
	}
	for i := 1; i < n; i++ {
		if i == op.writesArg {
			continue
		}
		if at.snap(dpos[i]) != dbefore[i] {
			det["position"] = i
			c.Fail("a non-receiver argument was modified (distinct-storage run)", det)
		}
	}
	// the receiver of a reading method (Equal, Bytes, ...) is not a "non-receiver argument":
	// only its value is required to survive, not its representation
	if !op.writesRecv && at.snap(dpos[0]) != dbefore[0] {
		c.Tally("reading method rewrote its receiver (recorded)")
		if at.enc(dpos[0]) != valEnc[part[0]] {
			c.Fail("a reading method changed the value of its receiver", det)
		}
	}
	c.Sample(at.tname+"."+op.name, map[string]any{"method": at.tname + "." + op.name, "partition": partS, "value0": valEnc[0]})
}

func partIndex(part []int) int {
	x := 0
	for _, b := range part {
		x = x*4 + b
	}
	// compress: partitions of <=4 positions have growth strings < 4^4; fold into 16 buckets by rank
	return rankOf(part)
}

var partRank = map[string]int{}

func rankOf(part []int) int {
	k := fmt.Sprint(part)
	if v, ok := partRank[k]; ok {
		return v
	}
	ps := partitions(len(part))
	for i, p := range ps {
		partRank[fmt.Sprint(p)] = i
	}
	return partRank[k]
}

func feType() aliasType[field.Element] {
	return aliasType[field.Element]{
		tname: "Element",
		gen: func(r *gen.Rand) *field.Element {
			o := drawFe(r, r.Chance(1, 3))
			return o.e
		},
		clone: func(e *field.Element) *field.Element { return new(field.Element).Set(e) },
		snap:  func(e *field.Element) string { b := rawOr(e); return string(b[:]) },
		enc:   func(e *field.Element) string { return hx(e.Bytes()) },
	}
}

func scType() aliasType[edwards25519.Scalar] {
	return aliasType[edwards25519.Scalar]{
		tname: "Scalar",
		gen: func(r *gen.Rand) *edwards25519.Scalar {
			s, _ := r.LibScalarAlt(r.Scalar().K)
			return s
		},
		clone: func(s *edwards25519.Scalar) *edwards25519.Scalar { return new(edwards25519.Scalar).Set(s) },
		snap: func(s *edwards25519.Scalar) string {
			return raw.ScalarSnap(s)
		},
		enc: func(s *edwards25519.Scalar) string { return hx(s.Bytes()) },
	}
}

func ptType() aliasType[edwards25519.Point] {
	return aliasType[edwards25519.Point]{
		tname: "Point",
		gen: func(r *gen.Rand) *edwards25519.Point {
			pc := r.Point()
			if pc.P == nil {
				return edwards25519.NewGeneratorPoint()
			}
			return pc.P
		},
		clone: func(p *edwards25519.Point) *edwards25519.Point { return new(edwards25519.Point).Set(p) },
		snap: func(p *edwards25519.Point) string {
			return raw.PointSnap(p)
		},
		enc: func(p *edwards25519.Point) string {
			st := observePoint(p)
			if !st.OK {
				return "INVALID(" + st.Why + ")"
			}
			return hx(st.Enc)
		},
	}
}

type E = field.Element
type S = edwards25519.Scalar
type P = edwards25519.Point

var feAliasOps = []aliasOp[E]{
	{name: "Add", nargs: 2, writesRecv: true, run: func(p []*E, x any) (*E, string) { return p[0].Add(p[1], p[2]), "" }},
	{name: "Subtract", nargs: 2, writesRecv: true, run: func(p []*E, x any) (*E, string) { return p[0].Subtract(p[1], p[2]), "" }},
	{name: "Multiply", nargs: 2, writesRecv: true, run: func(p []*E, x any) (*E, string) { return p[0].Multiply(p[1], p[2]), "" }},
	{name: "Square", nargs: 1, writesRecv: true, run: func(p []*E, x any) (*E, string) { return p[0].Square(p[1]), "" }},
	{name: "Negate", nargs: 1, writesRecv: true, run: func(p []*E, x any) (*E, string) { return p[0].Negate(p[1]), "" }},
	{name: "Invert", nargs: 1, writesRecv: true, run: func(p []*E, x any) (*E, string) { return p[0].Invert(p[1]), "" }},
	{name: "Absolute", nargs: 1, writesRecv: true, run: func(p []*E, x any) (*E, string) { return p[0].Absolute(p[1]), "" }},
	{name: "Pow22523", nargs: 1, writesRecv: true, run: func(p []*E, x any) (*E, string) { return p[0].Pow22523(p[1]), "" }},
	{name: "Set", nargs: 1, writesRecv: true, run: func(p []*E, x any) (*E, string) { return p[0].Set(p[1]), "" }},
	{name: "Mult32", nargs: 1, writesRecv: true, extra: func(r *gen.Rand) any { return uint32(r.U64()) | 0x80000000 },
		run: func(p []*E, x any) (*E, string) { return p[0].Mult32(p[1], x.(uint32)), "" }},
	{name: "Select", nargs: 2, writesRecv: true, extra: func(r *gen.Rand) any { return r.Intn(2) },
		run: func(p []*E, x any) (*E, string) { return p[0].Select(p[1], p[2], x.(int)), "" }},
	{name: "Swap", nargs: 1, writesRecv: true, writesArg: 1, extra: func(r *gen.Rand) any { return r.Intn(2) },
		run: func(p []*E, x any) (*E, string) { p[0].Swap(p[1], x.(int)); return nil, hx(p[1].Bytes()) }},
	{name: "SqrtRatio", nargs: 2, writesRecv: true, run: func(p []*E, x any) (*E, string) {
		r, w := p[0].SqrtRatio(p[1], p[2])
		return r, fmt.Sprint(w)
	}},
	{name: "Equal", nargs: 1, run: func(p []*E, x any) (*E, string) { return nil, fmt.Sprint(p[0].Equal(p[1])) }},
	{name: "IsNegative/Bytes", nargs: 0, run: func(p []*E, x any) (*E, string) { return nil, fmt.Sprint(p[0].IsNegative()) + hx(p[0].Bytes()) }},
	{name: "One/Zero", nargs: 0, writesRecv: true, extra: func(r *gen.Rand) any { return r.Intn(2) }, run: func(p []*E, x any) (*E, string) {
		if x.(int) == 1 {
			return p[0].One(), ""
		}
		return p[0].Zero(), ""
	}},
}

var scAliasOps = []aliasOp[S]{
	{name: "Add", nargs: 2, writesRecv: true, run: func(p []*S, x any) (*S, string) { return p[0].Add(p[1], p[2]), "" }},
	{name: "Subtract", nargs: 2, writesRecv: true, run: func(p []*S, x any) (*S, string) { return p[0].Subtract(p[1], p[2]), "" }},
	{name: "Multiply", nargs: 2, writesRecv: true, run: func(p []*S, x any) (*S, string) { return p[0].Multiply(p[1], p[2]), "" }},
	{name: "MultiplyAdd", nargs: 3, writesRecv: true, run: func(p []*S, x any) (*S, string) { return p[0].MultiplyAdd(p[1], p[2], p[3]), "" }},
	{name: "Negate", nargs: 1, writesRecv: true, run: func(p []*S, x any) (*S, string) { return p[0].Negate(p[1]), "" }},
	{name: "Invert", nargs: 1, writesRecv: true, run: func(p []*S, x any) (*S, string) { return p[0].Invert(p[1]), "" }},
	{name: "Set", nargs: 1, writesRecv: true, run: func(p []*S, x any) (*S, string) { return p[0].Set(p[1]), "" }},
	{name: "Equal", nargs: 1, run: func(p []*S, x any) (*S, string) { return nil, fmt.Sprint(p[0].Equal(p[1])) }},
	{name: "Bytes", nargs: 0, run: func(p []*S, x any) (*S, string) { return nil, hx(p[0].Bytes()) }},
}

type ptExtra struct {
	s1, s2 *S
}

func scalarPair(r *gen.Rand) any {
	return ptExtra{gen.LibScalar(r.Scalar().K), gen.LibScalar(r.Scalar().K)}
}

func (e ptExtra) String() string { return hx(e.s1.Bytes()) + "," + hx(e.s2.Bytes()) }

var ptAliasOps = []aliasOp[P]{
	{name: "Add", nargs: 2, writesRecv: true, run: func(p []*P, x any) (*P, string) { return p[0].Add(p[1], p[2]), "" }},
	{name: "Subtract", nargs: 2, writesRecv: true, run: func(p []*P, x any) (*P, string) { return p[0].Subtract(p[1], p[2]), "" }},
	{name: "Negate", nargs: 1, writesRecv: true, run: func(p []*P, x any) (*P, string) { return p[0].Negate(p[1]), "" }},
	{name: "MultByCofactor", nargs: 1, writesRecv: true, run: func(p []*P, x any) (*P, string) { return p[0].MultByCofactor(p[1]), "" }},
	{name: "Set", nargs: 1, writesRecv: true, run: func(p []*P, x any) (*P, string) { return p[0].Set(p[1]), "" }},
	{name: "ScalarMult", nargs: 1, writesRecv: true, extra: scalarPair, run: func(p []*P, x any) (*P, string) {
		e := x.(ptExtra)
		before := hx(e.s1.Bytes())
		ret := p[0].ScalarMult(e.s1, p[1])
		return ret, fmt.Sprint(before == hx(e.s1.Bytes()))
	}},
	{name: "ScalarBaseMult", nargs: 0, writesRecv: true, extra: scalarPair, run: func(p []*P, x any) (*P, string) {
		e := x.(ptExtra)
		before := scType().snap(e.s1)
		ret := p[0].ScalarBaseMult(e.s1)
		return ret, fmt.Sprint(before == scType().snap(e.s1))
	}},
	{name: "VarTimeDoubleScalarBaseMult", nargs: 1, writesRecv: true, extra: func(r *gen.Rand) any {
		e := scalarPair(r).(ptExtra)
		if r.Bool() {
			e.s2 = e.s1 // the two scalars may be the same object
		}
		return e
	}, run: func(p []*P, x any) (*P, string) {
		e := x.(ptExtra)
		b1, b2 := scType().snap(e.s1), scType().snap(e.s2)
		ret := p[0].VarTimeDoubleScalarBaseMult(e.s1, p[1], e.s2)
		return ret, fmt.Sprint(b1 == scType().snap(e.s1), b2 == scType().snap(e.s2))
	}},
	{name: "Equal", nargs: 1, run: func(p []*P, x any) (*P, string) { return nil, fmt.Sprint(p[0].Equal(p[1])) }},
	{name: "Bytes/BytesMontgomery/ExtendedCoordinates", nargs: 0, run: func(p []*P, x any) (*P, string) {
		X, Y, Z, T := p[0].ExtendedCoordinates()
		return nil, hx(p[0].Bytes()) + hx(p[0].BytesMontgomery()) + hx(X.Bytes()) + hx(Y.Bytes()) + hx(Z.Bytes()) + hx(T.Bytes())
	}},
}

// C11: receivers and arguments may alias; arguments are never modified.
func C11(c *Ctx) {
	n := c.N(40000, 2000000)
	fet, sct, ptt := feType(), scType(), ptType()
	type job struct {
		typ, op int
		part    []int
	}
	var jobs []job
	for oi, op := range feAliasOps {
		for _, p := range partitions(op.nargs + 1) {
			jobs = append(jobs, job{0, oi, p})
		}
	}
	for oi, op := range scAliasOps {
		for _, p := range partitions(op.nargs + 1) {
			jobs = append(jobs, job{1, oi, p})
		}
	}
	for oi, op := range ptAliasOps {
		for _, p := range partitions(op.nargs + 1) {
			jobs = append(jobs, job{2, oi, p})
		}
	}
	c.Res.Extra["method-partition combinations enumerated"] = len(jobs)
	for i := int64(0); i < n; i++ {
		if !c.Mine(i) {
			continue
		}
		r := c.Begin(i)
		switch i % 4 {
		case 3:
			c.aliasMulti(r, i/4)
		case 2:
			c.aliasSetters(r, i/4)
		default:
			j := jobs[int(i-i/4*2)%len(jobs)]
			switch j.typ {
			case 0:
				runAlias(c, r, fet, feAliasOps[j.op], j.part, j.op)
			case 1:
				runAlias(c, r, sct, scAliasOps[j.op], j.part, 20+j.op)
			default:
				runAlias(c, r, ptt, ptAliasOps[j.op], j.part, 40+j.op)
			}
		}
	}
}

// aliasMulti: multi-scalar routines with receiver among the points, repeated points,
// repeated scalars; slices and their elements must be unchanged.
func (c *Ctx) aliasMulti(r *gen.Rand, k int64) {
	vt := k%2 == 1
	name := "MultiScalarMult"
	if vt {
		name = "VarTimeMultiScalarMult"
	}
	nn := 1 + r.Intn(4)
	if r.Chance(1, 12) { // many terms, so that the receiver can sit at a high index
		nn = []int{33, 35, 48, 66}[r.Intn(4)]
	}
	ptt, sct := ptType(), scType()
	// value blocks
	pblock := make([]int, nn)
	sblock := make([]int, nn)
	for j := range pblock {
		pblock[j] = r.Intn(j + 1) // may repeat an earlier point
		if r.Bool() {
			pblock[j] = j
		}
		sblock[j] = r.Intn(j + 1)
		if r.Bool() {
			sblock[j] = j
		}
	}
	pvals := make([]*P, nn)
	svals := make([]*S, nn)
	ms := make([]ref.Pt, nn)
	ks := make([]*big.Int, nn)
	for j := 0; j < nn; j++ {
		pc := r.Point()
		if !validPoint(r, &pc) {
			pc.P, pc.M = edwards25519.NewGeneratorPoint(), ref.Base()
		}
		pvals[j], ms[j] = pc.P, pc.M
		sc := r.Scalar()
		svals[j], ks[j] = gen.LibScalar(sc.K), sc.K
	}
	recvAt := r.Intn(nn + 1) // nn = receiver is separate storage
	want := ref.Identity()
	for j := 0; j < nn; j++ {
		want = ref.Add(want, ref.Mul(ks[sblock[j]], ms[pblock[j]]))
	}
	// aliased run
	pobj := make([]*P, nn)
	sobj := make([]*S, nn)
	for j := range pobj {
		pobj[j] = ptt.clone(pvals[j])
		sobj[j] = sct.clone(svals[j])
	}
	points := make([]*P, nn, nn)
	scalars := make([]*S, nn, nn)
	for j := 0; j < nn; j++ {
		points[j] = pobj[pblock[j]]
		scalars[j] = sobj[sblock[j]]
	}
	recv := new(P)
	if recvAt < nn {
		recv = points[recvAt]
	}
	psnap := make([]string, nn)
	ssnap := make([]string, nn)
	for j := range pobj {
		psnap[j], ssnap[j] = ptt.snap(pobj[j]), sct.snap(sobj[j])
	}
	pointsCopy := append([]*P(nil), points...)
	scalarsCopy := append([]*S(nil), scalars...)
	var ret *P
	pv := catch(func() {
		if vt {
			ret = recv.VarTimeMultiScalarMult(scalars, points)
		} else {
			ret = recv.MultiScalarMult(scalars, points)
		}
	})
	c.Eval(true, []byte(name), []byte(fmt.Sprint(pblock, sblock, recvAt)), []byte(psnap[0]), []byte(ssnap[0]))
	c.Tally(name)
	c.Tally(fmt.Sprintf("multi: receiver among points=%v", recvAt < nn))
	det := map[string]any{"op": name, "n": nn, "point-blocks": fmt.Sprint(pblock), "scalar-blocks": fmt.Sprint(sblock), "receiver-is-point": recvAt, "want": ptHex(want)}
	if pv != nil {
		det["panic"] = pv
		c.Fail("unexpected panic", det)
		return
	}
	if ret != recv {
		c.Fail("returned pointer is not the receiver", det)
	}
	if why, st := checkPoint(recv, want); why != "" {
		det["why"], det["got"] = why, hx(st.Enc)
		c.Fail("multi-scalar result wrong under aliasing", det)
	}
	for j := range points {
		if points[j] != pointsCopy[j] || scalars[j] != scalarsCopy[j] {
			c.Fail("slice elements were modified", det)
		}
	}
	for j := range pobj {
		if (recvAt >= nn || pobj[j] != recv) && ptt.snap(pobj[j]) != psnap[j] {
			det["index"] = j
			c.Fail("a point argument was modified", det)
		}
		if sct.snap(sobj[j]) != ssnap[j] {
			det["index"] = j
			c.Fail("a scalar argument was modified", det)
		}
	}
	c.Sample(name, det)
}

// aliasSetters: byte-slice setters never modify their input; SetExtendedCoordinates with
// aliased coordinate arguments is covered by C13.
func (c *Ctx) aliasSetters(r *gen.Rand, k int64) {
	which := int(k % 6)
	names := []string{"Point.SetBytes", "Scalar.SetCanonicalBytes", "Scalar.SetUniformBytes", "Scalar.SetBytesWithClamping", "Element.SetBytes", "Element.SetWideBytes"}
	var in []byte
	switch which {
	case 0:
		m, _ := r.ModelPoint()
		in = encOf(m)
	case 1:
		b := ref.IntToLE32(r.Scalar().K)
		in = b[:]
	case 2, 5:
		in = r.Bytes(64)
	default:
		in = r.Bytes(32)
	}
	if r.Chance(1, 4) {
		for j := range in {
			in[j] = 0xff
		}
	}
	// the input sits inside a larger buffer: neighbours must not be touched either
	buf := r.Bytes(len(in) + 16 + 80)
	copy(buf[16:], in)
	if r.Bool() {
		in = buf[16 : 16+len(in) : 16+len(in)] // exact capacity: an over-read panics
	} else {
		in = buf[16 : 16+len(in)] // spare capacity behind the input: an append() would write there
	}
	bufCopy := append([]byte(nil), buf...)
	pv := catch(func() {
		switch which {
		case 0:
			new(P).SetBytes(in)
		case 1:
			new(S).SetCanonicalBytes(in)
		case 2:
			new(S).SetUniformBytes(in)
		case 3:
			new(S).SetBytesWithClamping(in)
		case 4:
			new(E).SetBytes(in)
		default:
			new(E).SetWideBytes(in)
		}
	})
	c.Eval(true, []byte(names[which]), in)
	c.Tally(names[which])
	if pv != nil {
		c.Fail("unexpected panic", map[string]any{"setter": names[which], "panic": pv, "input": hx(in)})
	}
	if string(buf) != string(bufCopy) {
		c.Fail("setter modified its input slice (or its neighbourhood)", map[string]any{"setter": names[which], "input": hx(bufCopy[16 : 16+len(in)]), "after": hx(in)})
	}
}
