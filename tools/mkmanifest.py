#!/usr/bin/env python3
"""Regenerates /verif/MANIFEST.json from the table below (kept next to the checks so the two stay in step)."""
import json, os
HERE = os.path.dirname(os.path.dirname(os.path.abspath(__file__)))

NOTE = ("Trusted base: the math/big reference model in harness/ref (self-tested at every worker start), the Go toolchain/runtime, "
        "and for raw-limb observations the reflect layout guards in harness/raw. Runtime monitoring: the verdict covers the executions "
        "listed in the evidence file, not all inputs.")

def ex(text): return text

CHECKS = {
 "C01": ("reference-model monitor (math/big group law) over generated scalar x point x receiver-state executions of the public API",
         "Exploration: every execution of the five scalar-multiplication entry points is compared (pointer identity, coordinate validity, affine point, encoding) with an independent big-integer double-and-add, under several receiver states per case, with constructed inputs covering the whole group of order 8l, projective rescalings, non-canonical limb forms, digit-extreme scalars and all term counts; coverage of (position, digit) pairs of both recodings is measured; an optional in-package shim injected with -overlay additionally checks every recoding and every lookup-table entry a digit can select (all 544 basepoint (table, digit) pairs per run). It cannot enumerate l x 8l inputs; it decides the property on what was run.", "5 C01, 9.6"),
 "C02": ("reference-model monitor: affine Edwards addition law in math/big vs. Add/Subtract/Negate/MultByCofactor on structured (8x8 torsion x prime-order combinations) and sampled operand pairs",
         "Exploration: all 384 structured operand combinations (exceptional cases P=Q, Q=-P, small-order sums, identity) are walked repeatedly with fresh representations, plus independent pairs; each result is checked for validity and equality with the complete addition law. Sampling of the prime-order parts, not enumeration.", "5 C02"),
 "C03": ("two-run leakage-trace equality monitors: (a) source-instrumented build generated from the working tree (branches, indices, shift counts, divisors, foreign-call arguments); (b) machine-level instruction/memory-address traces of the uninstrumented binary under valgrind lackey",
         "Exploration: for every constant-time entry point the recorded leakage trace under adversarial and uniform secret assignments must equal the trace of a reference assignment; a divergence names the function of the deciding event. The known finding K1 (checkInitialized) is matched by function and witness class and everything else is still a violation. The machine-level stage sees the assembly and whatever the compiler emitted; heap objects allocated inside a traced call are compared coarsely (see DESIGN 3.6). Both observe only the executions run; micro-architectural timing is out of reach.", "3.5, 5 C03"),
 "C04": ("reference-model monitor: Euler-criterion/ModSqrt decoding oracle vs. Point.SetBytes over constructed 32-byte classes and all other lengths; the same monitor also in the GOARCH=386 build",
         "Exploration: accept/reject and the decoded point are compared with the oracle over boundary, non-canonical, neighbour, bit-flip and uniform inputs and every wrong length up to 100. 2^256 inputs are sampled by class, not enumerated.", "5 C04"),
 "C05": ("reference-model monitor: RFC 8032 encoding of the model point vs. Bytes() over every construction route/projective scaling/history of the same point; round trips; a long-lived encoded object re-assigned through every assigning method; the same monitor also in the GOARCH=386 build",
         "Exploration: representation independence is exercised by encoding the same model point through 10 public-API routes per case and through different operation histories; sampled points.", "5 C05"),
 "C06": ("reference-model monitor: model equality vs. Point.Equal over related pairs (same point in two representations, torsion translates, negatives, shared coordinate, 8x8 small-order pairs)",
         "Exploration: both argument orders, all relations that share coordinates, exhaustive small-order pairs; sampled prime-order parts.", "5 C06"),
 "C07": ("reference-model monitor: math/big arithmetic mod l vs. Scalar operations; raw Montgomery limb bound; Equal on all 253 single-bit Montgomery differences; one object taken through multiplier use and every mutating method in turn",
         "Exploration: class x class operand pairs, multiple construction routes, every bit of Equal's OR-fold exercised in isolation; millions of evaluations, not l^3.", "5 C07"),
 "C08": ("reference-model monitor: integer comparison / mod l / RFC 8032 clamping vs. the scalar setters and Bytes over boundary-constructed byte strings and all lengths; the same monitor also in the GOARCH=386 build",
         "Exploration: the accept boundary is probed at every byte position of the lexicographic comparison, wide reduction at every single bit and near 2^512, every wrong length; sampled otherwise.", "5 C08"),
 "C09": ("reference-model monitor + invariant assertion: math/big mod p vs. field operations on operands in reachable representations (incl. constructed limb-maximal ones) and over guided operation histories; limb bound 2^52 asserted on every output; the same monitor also in the purego and GOARCH=386 builds",
         "Exploration: only representations reachable through the public API are used, worst cases are constructed (limbs at 2^51+2^32, limb0 at 2^51+19*2^32) and approached by a magnitude-guided history search; the closed bound is approached, not enumerated.", "5 C09"),
 "C10": ("reference-model monitor: residues mod p vs. SetBytes/SetWideBytes/Bytes/Equal/IsNegative across representations; bit-for-bit Select/Swap check on raw limbs; the same monitor also in the purego and GOARCH=386 builds",
         "Exploration: all 19 non-canonical encodings, boundary residues in all 12 recipes, single bits of the wide input; sampled otherwise.", "5 C10"),
 "C11": ("differential monitor: every exported method x every set partition of {receiver, same-typed arguments} run with aliased vs. distinct storage; raw before/after snapshots of all non-written objects, slices and their neighbourhood; read-only arguments held in read-only (mprotect) memory during the distinct-storage run, so that even a store that is undone faults",
         "Exploration: the method x partition table (108 combinations) is enumerated completely and repeatedly with fresh values; argument values are sampled.", "5 C11"),
 "C12": ("invariant hooks over generated operation histories with a shadow model: coordinate validity (big ints), model agreement, bit-for-bit immutability of non-receivers, Equal sweeps; package-globals digest drift recorded (not a verdict)",
         "Exploration: thousands of programs of 30-200 public operations with aliasing and zero-value receivers; the invariant is checked after every step; histories are sampled.", "3.3, 5 C12"),
 "C13": ("reference-model monitor: the three validity conditions in math/big vs. SetExtendedCoordinates over valid quadruples and single-condition violations in every representation of zero; export/re-import",
         "Exploration: each way of violating exactly one condition, all-zero in 6 representations of zero, aliased arguments; sampled otherwise.", "5 C13"),
 "C14": ("state-snapshot monitor: raw receiver/input snapshots around the seven fallible setters for invalid and valid inputs x receiver states; inputs in spare-capacity buffers, against PROT_NONE guard pages and in read-only pages during the call; input overwritten after success (retention)",
         "Exploration: all wrong lengths up to 100, content failures, four receiver states; sampled contents.", "5 C14"),
 "C15": ("enumerated misuse monitor: recover() around every exported Point operation x every subset of zero-value input positions, multi-scalar element positions and length pairs; zero-value pure receivers checked against the model",
         "Exploration: the (operation, position) table is enumerated completely; the other argument values are sampled.", "5 C15"),
 "C16": ("reference-model monitor: SQRT_RATIO_M1 written from the specification (Euler criterion + ModSqrt) vs. SqrtRatio over (u,v) classes x representations x receiver aliasing; the same monitor also in the purego and GOARCH=386 builds",
         "Exploration: all case classes of the contract incl. (0,0), (u,0), +-i ratios; sampled values.", "5 C16"),
 "C17": ("reference-model monitor: (1+y)/(1-y) in math/big and crypto/ecdh X25519 public keys vs. BytesMontgomery, also on long-lived objects re-assigned after an earlier encoding",
         "Exploration: whole-group points in all construction routes plus an independent second oracle; sampled.", "5 C17"),
 "C18": ("Go race detector over cold child processes with simultaneous first use (injected delays at construction entries) + entry-counter monitor (each sync.Once body at most once, bulk construction counts equal to a sequential cold process) + concurrent vs. sequential transcripts incl. multi-scalar calls of different lengths (cross-process package-state digests recorded only)",
         "Exploration of schedules: 40 (quick) / 600 (thorough) cold processes with 2-64 goroutines; contention is measured, not assumed. Only schedules the Go scheduler plus delays produce are seen.", "3.7, 5 C18"),
 "C19": ("history monitor with mutation steps: scribbling over every kind of returned value followed by probe calls with model-known answers, memory-overlap checks, purity memo; every raw write into a returned value bracketed by two package-globals digests (exact); digest drift across library calls recorded only",
         "Exploration: thousands of programs; every mutation is followed by probes; half of the processes use the tables for the first time after mutations.", "5 C19"),
 "C20": ("cross-build differential monitor: the same seeded workload in the default (assembly), purego, GOARCH=386 and (where the CPU allows) GOAMD64=v3 builds, per-chunk transcripts compared by the controller; math/big oracle and limb bound in each build; guard pages around the assembly operands; callee-saved register (BP) monitor around the assembly calls",
         "Exploration: Multiply/Square on limb-maximal reachable operands in all aliasing patterns at page edges, plus a deterministic whole-API program, under the two configurations the property names plus GOARCH=386 (portable code, 32-bit int) and GOAMD64=v3 (level-specific assembly and compiler output), all executable on this machine.", "3.7, 5 C20, 9.6"),
}
NOT_YET = {}

def main():
    props = [json.loads(l) for l in open(os.path.join(HERE, "properties.jsonl"))]
    checks, na = [], []
    for p in props:
        pid = p["id"]
        if pid in CHECKS:
            tech, text, ref = CHECKS[pid]
            checks.append({
                "property_id": pid,
                "quick_cmd": f"./vcheck {pid} --tier quick",
                "thorough_cmd": f"./vcheck {pid} --tier thorough",
                "evidence_file": f"/verif/evidence/{pid}.json",
                "replay_cmd_template": f"./vcheck {pid} --replay {{path}}",
                "engine": "vcheck",
                "level_claimed": {"category": "exploration", "text": text, "design_ref": "DESIGN.md section " + ref},
                "level_note": NOTE,
                "technique": tech,
            })
        else:
            na.append({"property_id": pid, "reason": NOT_YET.get(pid, "check not built yet in this revision of /verif (work in progress; see DESIGN.md section 5 for the planned runtime monitor)")})
    m = {
        "version": 1,
        "setup_cmd": "./vcheck setup",
        "hooks": {
            "guard": "verif",
            "enable": "go build -tags verif -overlay <generated overlay.json>: all hooks (globals digest, leakage-trace runtime, instrumented copies) are generated from /repo's working tree at check time by harness/cmd/ctinstr and injected with -overlay; nothing is committed to /repo",
            "baseline_off_cmd": "cd /repo && GOFLAGS=-mod=mod GOPROXY=off GOSUMDB=off GOTOOLCHAIN=local go test -vet=off -count=1 ./...",
            "source_commits": [],
            "add_only": True,
        },
        "engines": [{"name": "vcheck", "path": "/verif/vcheck", "serves_properties": [c["property_id"] for c in checks],
                     "kind_free_text": "runtime monitoring: controller (harness/cmd/vctl) rebuilds worker processes from /repo, monitors in harness/mon observe executions against harness/ref"}],
        "checks": checks,
        "not_applicable": na,
        "notes": "Genuine defects repaired in /repo: cafb97c (fix: MultiScalarMult receiver reset), 86a4646 (fix: reject Z = 0 in SetExtendedCoordinates). Known finding K1 (C03) is listed in KNOWN_FINDINGS.txt.",
    }
    json.dump(m, open(os.path.join(HERE, "MANIFEST.json"), "w"), indent=1)
    print("MANIFEST.json:", len(checks), "checks,", len(na), "not_applicable")

if __name__ == "__main__":
    main()
