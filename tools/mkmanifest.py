#!/usr/bin/env python3
"""Regenerates /verif/MANIFEST.json from the table below (kept next to the checks so the two stay in step)."""
import json, os
HERE = os.path.dirname(os.path.dirname(os.path.abspath(__file__)))

NOTE = ("Trusted base: the math/big reference model in harness/ref (self-tested at every worker start), the Go toolchain/runtime, "
        "and for raw-limb observations the reflect layout guards in harness/raw. Runtime monitoring: the verdict covers the executions "
        "listed in the evidence file, not all inputs.")

CHECKS = {
 "C01": ("reference-model monitor (math/big group law) over generated scalar x point x receiver-state cases on the public API",
         "Exploration: every execution of the five scalar-multiplication entry points is compared (pointer identity, coordinate validity, affine point, encoding) with an independent big-integer double-and-add, under several receiver states per case, with constructed inputs covering the whole group of order 8l, projective rescalings, non-canonical limb forms, digit-extreme scalars and all term counts; coverage of (position, digit) pairs of both recodings is measured. It cannot enumerate l x 8l inputs; it decides the property on what was run.",
         "5 C01"),
}
NOT_YET = {}

def main():
    props = [json.loads(l) for l in open(os.path.join(HERE, "properties.jsonl"))]
    checks, na = [], []
    for p in props:
        pid = p["id"]
        if pid in CHECKS:
            tech, text, ref = CHECKS[pid]
            checks.append({
                "property_id": pid,
                "quick_cmd": f"./vcheck {pid} --tier quick",
                "thorough_cmd": f"./vcheck {pid} --tier thorough",
                "evidence_file": f"/verif/evidence/{pid}.json",
                "replay_cmd_template": f"./vcheck {pid} --replay {{path}}",
                "engine": "vcheck",
                "level_claimed": {"category": "exploration", "text": text, "design_ref": "DESIGN.md section " + ref},
                "level_note": NOTE,
                "technique": tech,
            })
        else:
            na.append({"property_id": pid, "reason": NOT_YET.get(pid, "check not built yet in this revision of /verif (work in progress; see DESIGN.md section 5 for the planned runtime monitor)")})
    m = {
        "version": 1,
        "setup_cmd": "./vcheck setup",
        "hooks": {
            "guard": "verif",
            "enable": "go build -tags verif -overlay <generated overlay.json>: all hooks (globals digest, leakage-trace runtime, instrumented copies) are generated from /repo's working tree at check time by harness/cmd/ctinstr and injected with -overlay; nothing is committed to /repo",
            "baseline_off_cmd": "cd /repo && GOFLAGS=-mod=mod GOPROXY=off GOSUMDB=off GOTOOLCHAIN=local go test -vet=off -count=1 ./...",
            "source_commits": [],
            "add_only": True,
        },
        "engines": [{"name": "vcheck", "path": "/verif/vcheck", "serves_properties": [c["property_id"] for c in checks],
                     "kind_free_text": "runtime monitoring: controller (harness/cmd/vctl) rebuilds worker processes from /repo, monitors in harness/mon observe executions against harness/ref"}],
        "checks": checks,
        "not_applicable": na,
        "notes": "Genuine defects repaired in /repo: cafb97c (fix: MultiScalarMult receiver reset), 86a4646 (fix: reject Z = 0 in SetExtendedCoordinates). Known finding K1 (C03) is listed in KNOWN_FINDINGS.txt.",
    }
    json.dump(m, open(os.path.join(HERE, "MANIFEST.json"), "w"), indent=1)
    print("MANIFEST.json:", len(checks), "checks,", len(na), "not_applicable")

if __name__ == "__main__":
    main()
