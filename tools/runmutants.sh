#!/bin/bash
# Runs every mutant of mutants/INDEX.tsv (or those matching $1) through the repository's own
# tests and the quick checks of the properties it is expected to trip; appends to mutants/RESULTS.tsv
cd /verif
pat="${1:-.}"
while IFS=$'\t' read -r mid props note; do
  echo "$mid" | grep -qE "$pat" || continue
  [ -z "$props" ] && props="C01 C02 C09 C11 C12"
  out="$(VERIF_C03_SOURCE_ONLY=1 tools/mutant.sh mutants/$mid.diff $props 2>&1)"
  tests=$(echo "$out" | grep -o "repo tests: [A-Z]*" | head -1)
  res=$(echo "$out" | grep "^== " | sed 's/^== //' | tr '\n' ';')
  printf "%s\t%s\t%s\t%s\n" "$mid" "$tests" "$res" "$note" | tee -a mutants/RESULTS.tsv
done < mutants/INDEX.tsv
