#!/bin/bash
# Runs every mutant of mutants/INDEX.tsv (or those matching $1) through the repository's own tests and the
# quick checks of the properties it is expected to trip, on the separate worktree /tmp/wt/sweeprepo
# (never /repo); writes mutants/RESULTS.tsv
cd /verif
export GOFLAGS=-mod=mod GOPROXY=off GOSUMDB=off GOTOOLCHAIN=local
pat="${1:-.}"
wt=/tmp/wt/sweeprepo
[ -d $wt ] || git -C /repo worktree add -q --detach $wt HEAD
: > mutants/RESULTS.tsv
while IFS=$'\t' read -r mid props note; do
  echo "$mid" | grep -qE "$pat" || continue
  [ -z "$props" ] && props="C01 C02 C09 C11 C12"
  git -C $wt checkout -q -- . ; git -C $wt clean -fdq
  git -C $wt apply /verif/mutants/$mid.diff || { echo "$mid PATCH-DOES-NOT-APPLY"; continue; }
  if (cd $wt && go test -vet=off -count=1 ./... >/dev/null 2>&1); then tests="suite:PASS"; else tests="suite:FAIL"; fi
  git -C $wt checkout -q -- .
  res="$(VERIF_C03_SOURCE_ONLY=1 tools/seedcheck.sh mutants/$mid.diff $props 2>&1 | grep '^== ' | sed 's/^== //' | tr '\n' ';')"
  printf "%s\t%s\t%s\t%s\n" "$mid" "$tests" "$res" "$note" | tee -a mutants/RESULTS.tsv
done < mutants/INDEX.tsv
