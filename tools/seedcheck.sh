#!/bin/bash
# usage: tools/seedcheck.sh <patch.diff> <property>... — like mutant.sh but on the separate worktree
# /tmp/wt/sweeprepo (VERIF_REPO), so /repo itself is never touched
set -u
wt=${WT:-/tmp/wt/sweeprepo}
[ -d $wt ] || git -C /repo worktree add -q --detach $wt HEAD
git -C $wt checkout -q -- . ; git -C $wt clean -fdq
trap 'git -C $wt checkout -q -- . ; git -C $wt clean -fdq' EXIT
patch="$(readlink -f "$1")"; shift
git -C $wt apply "$patch" || { echo "PATCH-DOES-NOT-APPLY"; exit 3; }
for p in "$@"; do
  out="$(cd /verif && VERIF_REPO=$wt ./vcheck "$p" ${TIER:+--tier $TIER} 2>&1)"; code=$?
  nv=$(echo "$out" | grep -c '^VIOLATION')
  echo "== $p exit=$code violations=$nv"
  echo "$out" | grep -A1 '^VIOLATION' | head -4 | cut -c1-500
  echo "$out" | grep -E '^(INCONCLUSIVE|CANNOT-DECIDE|violations by stage)' | head -3 | cut -c1-200
done
