#!/usr/bin/env python3
"""Generates the mutation corpus of DESIGN.md Appendix A as patch files in /verif/mutants/.
Each mutant is (id, file, old text, new text, properties expected to trip). The script edits a
scratch copy of the file, diffs it against /repo and never touches /repo itself."""
import os, subprocess, sys, tempfile, shutil

REPO = "/repo"
OUT = "/verif/mutants"

M = []
def mut(mid, path, old, new, props, note=""):
    M.append((mid, path, old, new, props, note))

# --- C01 family
mut("M01-scalarmult-no-reset", "scalarmult.go",
    "\tv.Set(NewIdentityPoint())\n\ttmp1.Add(v, multiple) // tmp1 = x_63*Q in P1xP1 coords",
    "\ttmp1.Add(v, multiple) // tmp1 = x_63*Q in P1xP1 coords", "C01 C12 C19 C15")
mut("M03-multiscalarmult-reset-too-early", "extra.go",
    "\tcheckInitialized(points...)\n\n\t// Proceed as in the single-base case, but share doublings",
    "\tcheckInitialized(points...)\n\tv.Set(NewIdentityPoint())\n\n\t// Proceed as in the single-base case, but share doublings", "C11 C01",
    "receiver reset before the tables are built (and the later reset kept): wrong when receiver is one of the points")
mut("M04-naf5-table-last-entry", "tables.go",
    "\tfor i := 0; i < 7; i++ {\n\t\tv.points[i+1].FromP3(tmpP3.fromP1xP1(tmpP1xP1.Add(&q2, &v.points[i])))\n\t}\n}\n\n// This is not optimised for speed; fixed-base tables should be precomputed.\nfunc (v *nafLookupTable8)",
    "\tfor i := 0; i < 7; i++ {\n\t\tj := i\n\t\tif i == 6 {\n\t\t\tj = 4\n\t\t}\n\t\tv.points[i+1].FromP3(tmpP3.fromP1xP1(tmpP1xP1.Add(&q2, &v.points[j])))\n\t}\n}\n\n// This is not optimised for speed; fixed-base tables should be precomputed.\nfunc (v *nafLookupTable8)", "C01")
mut("M05-vartimemulti-no-zero", "extra.go",
    "\ttmp2 := &projP2{}\n\ttmp2.Zero()\n\n\t// Move from high to low bits, doubling the accumulator\n\t// at each iteration and checking whether there is a nonzero\n\t// coefficient to look up a multiple of.\n\t//\n\t// Skip",
    "\ttmp2 := &projP2{}\n\ttmp2.FromP3(v)\n\n\t// Move from high to low bits, doubling the accumulator\n\t// at each iteration and checking whether there is a nonzero\n\t// coefficient to look up a multiple of.\n\t//\n\t// Skip", "C01 C12")
mut("M06-subaffine-sign", "edwards25519.go",
    "\tv.Z.Subtract(&Z2, &TT2d) // flipped sign\n\tv.T.Add(&Z2, &TT2d)      // flipped sign",
    "\tv.Z.Add(&Z2, &TT2d)\n\tv.T.Subtract(&Z2, &TT2d)", "C01")
# --- C02
mut("M07-negate-keeps-t", "edwards25519.go", "\tv.t.Negate(&p.t)\n\treturn v\n}", "\tv.t.Set(&p.t)\n\treturn v\n}", "C02 C12")
mut("M08-multbycofactor-reads-receiver", "extra.go",
    "\tresult.Double(pp)\n\tpp.FromP1xP1(&result)\n\tresult.Double(pp)\n\tpp.FromP1xP1(&result)\n\tresult.Double(pp)\n\treturn v.fromP1xP1(&result)",
    "\tresult.Double(pp)\n\tpp.FromP1xP1(&result)\n\tresult.Double(pp)\n\tv.fromP1xP1(&result)\n\tresult.Double(pp.FromP3(v))\n\treturn v.fromP1xP1(&result)", "C11",
    "intermediate goes through the receiver: harmless unless... (equivalent mutant candidate)")
mut("M09-sub-unflipped", "edwards25519.go",
    "\tv.Z.Subtract(&ZZ2, &TT2d) // flipped sign\n\tv.T.Add(&ZZ2, &TT2d)      // flipped sign",
    "\tv.Z.Add(&ZZ2, &TT2d)\n\tv.T.Subtract(&ZZ2, &TT2d)", "C02 C01")
# --- C03
mut("M11-scalarmult-skip-zero-digit", "scalarmult.go",
    "\t\tv.fromP1xP1(tmp1)    //    v = 16*(prev) in P3 coords\n\t\ttable.SelectInto(multiple, digits[i])\n\t\ttmp1.Add(v, multiple) // tmp1 = x_i*Q + 16*(prev) in P1xP1 coords",
    "\t\tv.fromP1xP1(tmp1)    //    v = 16*(prev) in P3 coords\n\t\tif digits[i] == 0 {\n\t\t\tmultiple.Zero()\n\t\t} else {\n\t\t\ttable.SelectInto(multiple, digits[i])\n\t\t}\n\t\ttmp1.Add(v, multiple) // tmp1 = x_i*Q + 16*(prev) in P1xP1 coords", "C03")
mut("M12-fe-equal-bytes-equal", "field/fe.go",
    "\treturn subtle.ConstantTimeCompare(sa, sv)", "\tif bytes.Equal(sa, sv) {\n\t\treturn 1\n\t}\n\treturn 0 & subtle.ConstantTimeCompare(sa, sv)", "C03", "needs import")
mut("M13-select-branch", "field/fe.go",
    "\tm := mask64Bits(cond)\n\tv.l0 = (m & a.l0) | (^m & b.l0)\n\tv.l1 = (m & a.l1) | (^m & b.l1)\n\tv.l2 = (m & a.l2) | (^m & b.l2)\n\tv.l3 = (m & a.l3) | (^m & b.l3)\n\tv.l4 = (m & a.l4) | (^m & b.l4)\n\treturn v",
    "\tif cond == 1 {\n\t\t*v = *a\n\t} else {\n\t\t*v = *b\n\t}\n\treturn v", "C03")
# --- C04 / C16
mut("M14-sqrtratio-wassquare-too-lax", "field/fe.go",
    "\treturn r, correctSignSqrt | flippedSignSqrt\n", "\treturn r, correctSignSqrt | flippedSignSqrt | flippedSignSqrtI\n", "C04 C16")
mut("M15-setbytes-sign-rule", "edwards25519.go",
    "\txx = xx.Select(xxNeg, xx, int(x[31]>>7))", "\txx = xx.Select(xxNeg, xx, int(x[31]>>7)|int(x[31]>>6&x[0]&x[1]&x[2]&1))", "C04 C05")
# --- C05
mut("M16-bytes-no-zinv-for-y", "edwards25519.go",
    "\ty.Multiply(&v.y, &zInv) // y = Y / Z\n\n\tout := copyFieldElement(buf, &y)", "\ty.Multiply(&v.y, &zInv) // y = Y / Z\n\n\tout := copyFieldElement(buf, &v.y)", "C05")
mut("M17-bytes-sign-from-projective-x", "edwards25519.go",
    "\tout[31] |= byte(x.IsNegative() << 7)", "\tout[31] |= byte(v.x.IsNegative() << 7)", "C05")
# --- C06
mut("M18-equal-drops-y", "edwards25519.go",
    "\treturn t1.Equal(&t2) & t3.Equal(&t4)", "\treturn t1.Equal(&t2) & (t3.Equal(&t4) | t3.Equal(t4.Negate(&t4)))", "C06")
# --- C07
mut("M19-scalar-equal-drop-fold", "scalar.go", "\tnonzero |= nonzero >> 32\n", "", "C07")
mut("M20-multiplyadd-no-copy", "scalar.go",
    "\tzCopy := new(Scalar).Set(z)\n\treturn s.Multiply(x, y).Add(s, zCopy)", "\treturn s.Multiply(x, y).Add(s, z)", "C11 C07")
mut("M21-scalar-invert-early-write", "extra.go",
    "\tvar table [8]Scalar\n\tvar tt Scalar\n\ttt.Multiply(t, t)\n\ttable[0] = *t",
    "\tvar table [8]Scalar\n\tvar tt Scalar\n\ttt.Multiply(t, t)\n\t*s = *t\n\ts.Multiply(s, &tt)\n\ttable[0] = *t", "C11")
# --- C08
mut("M22-isreduced-accepts-l", "scalar.go",
    "\t\tcase s[i] < scalarMinusOneBytes[i]:\n\t\t\treturn true\n\t\t}\n\t}\n\treturn true",
    "\t\tcase s[i] < scalarMinusOneBytes[i]:\n\t\t\treturn true\n\t\t}\n\t\tif i == 1 {\n\t\t\tbreak\n\t\t}\n\t}\n\treturn true", "C08")
mut("M23-clamp-in-place", "scalar.go",
    "\tvar wideBytes [64]byte\n\tcopy(wideBytes[:], x[:])\n\twideBytes[0] &= 248\n\twideBytes[31] &= 63\n\twideBytes[31] |= 64",
    "\tvar wideBytes [64]byte\n\tx[0] &= 248\n\tx[31] &= 63\n\tx[31] |= 64\n\tcopy(wideBytes[:], x[:])", "C14 C11")
mut("M24-two336-off-by-one", "scalar.go", "0xbd3d108e2b35ecc5", "0xbd3d108e2b35ecc4", "C08")
# --- C09
mut("M25-subtract-p-not-2p", "field/fe.go",
    "\tv.l0 = (a.l0 + 0xFFFFFFFFFFFDA) - b.l0\n\tv.l1 = (a.l1 + 0xFFFFFFFFFFFFE) - b.l1\n\tv.l2 = (a.l2 + 0xFFFFFFFFFFFFE) - b.l2\n\tv.l3 = (a.l3 + 0xFFFFFFFFFFFFE) - b.l3\n\tv.l4 = (a.l4 + 0xFFFFFFFFFFFFE) - b.l4",
    "\tv.l0 = (a.l0 + 0x7FFFFFFFFFFED) - b.l0\n\tv.l1 = (a.l1 + 0x7FFFFFFFFFFFF) - b.l1\n\tv.l2 = (a.l2 + 0x7FFFFFFFFFFFF) - b.l2\n\tv.l3 = (a.l3 + 0x7FFFFFFFFFFFF) - b.l3\n\tv.l4 = (a.l4 + 0x7FFFFFFFFFFFF) - b.l4", "C09")
mut("M26-add-no-carry", "field/fe.go",
    "\tv.l4 = a.l4 + b.l4\n\t// Using the generic implementation here is actually faster than the\n\t// assembly. Probably because the body of this function is so simple that\n\t// the compiler can figure out better optimizations by inlining the carry\n\t// propagation.\n\treturn v.carryPropagateGeneric()",
    "\tv.l4 = a.l4 + b.l4\n\treturn v", "C09")
mut("M27-mult32-drop-19hi", "field/fe.go",
    "\tv.l0 = x0lo + 19*x4hi // carried over per the reduction identity", "\tv.l0 = x0lo + 19*(x4hi&0xffffffff) // carried over per the reduction identity", "C09")
# --- C20
mut("M29-squaregeneric-term", "field/fe_generic.go",
    "\tr4 := mul64(l0_2, l4)\n\tr4 = addMul64(r4, l1_2, l3)\n\tr4 = addMul64(r4, l2, l2)\n\n\tc0 := shiftRightBy51(r0)",
    "\tr4 := mul64(l0_2, l4)\n\tr4 = addMul64(r4, l1_2, l3)\n\tr4 = addMul64(r4, l2, l2&0xfffffffffffff)\n\n\tc0 := shiftRightBy51(r0)", "C20", "equivalent under the invariant (limbs < 2^52)? expected silent")
mut("M28-mulgeneric-carry-corner", "field/fe_generic.go",
    "\trr0 := r0.lo&maskLow51Bits + c4*19\n\trr1 := r1.lo&maskLow51Bits + c0\n\trr2 := r2.lo&maskLow51Bits + c1\n\trr3 := r3.lo&maskLow51Bits + c2\n\trr4 := r4.lo&maskLow51Bits + c3\n\n\t// Now all coefficients fit into 64-bit registers but are still too large to",
    "\trr0 := r0.lo&maskLow51Bits + (c4&(1<<53-1))*19\n\trr1 := r1.lo&maskLow51Bits + c0\n\trr2 := r2.lo&maskLow51Bits + c1\n\trr3 := r3.lo&maskLow51Bits + c2\n\trr4 := r4.lo&maskLow51Bits + c3\n\n\t// Now all coefficients fit into 64-bit registers but are still too large to",
    "C20", "c4 truncated to 53 bits: only wrong when r4 >= 2^104, i.e. near-maximal limbs in all five products")
# --- C10
mut("M30-reduce-plus-18", "field/fe.go", "\tc := (v.l0 + 19) >> 51", "\tc := (v.l0 + 18) >> 51", "C10 C05")
mut("M31-setwide-himsb", "field/fe_extra.go", "hiMSB*2*19*19", "hiMSB*2*19", "C10")
mut("M33-swap-four-limbs", "field/fe.go",
    "\tt = m & (v.l4 ^ u.l4)\n\tv.l4 ^= t\n\tu.l4 ^= t\n}", "\tt = m & (v.l4 ^ u.l4)\n\tv.l4 ^= t\n}", "C10")
# --- C11
mut("M34-point-add-no-temp", "edwards25519.go",
    "func (v *Point) Add(p, q *Point) *Point {\n\tcheckInitialized(p, q)\n\tqCached := new(projCached).FromP3(q)\n\tresult := new(projP1xP1).Add(p, qCached)\n\treturn v.fromP1xP1(result)\n}",
    "func (v *Point) Add(p, q *Point) *Point {\n\tcheckInitialized(p, q)\n\tqCached := new(projCached).FromP3(q)\n\tv.Set(p)\n\tresult := new(projP1xP1).Add(v, qCached)\n\treturn v.fromP1xP1(result)\n}", "C02 C11 C12",
    "equivalent (qCached is computed before v is written): expected silent")
# --- C13
mut("M36-isoncurve-drop-xy-zt", "extra.go",
    "\tlhs.Multiply(X, Y)\n\trhs.Multiply(T, Z)\n\treturn lhs.Equal(&rhs) == 1", "\tlhs.Multiply(X, Y)\n\trhs.Multiply(T, Z)\n\treturn lhs.Equal(&rhs) == 1 || lhs.Equal(rhs.Negate(&rhs)) == 1", "C13 C12")
mut("M35-accept-z-zero", "extra.go",
    "\tif Z.Equal(new(field.Element)) == 1 {\n\t\treturn false\n\t}\n", "", "C13 C12 C14")
# --- C14
mut("M37-setbytes-early-y", "edwards25519.go",
    "\ty, err := new(field.Element).SetBytes(x)\n\tif err != nil {", "\ty, err := v.y.SetBytes(x)\n\tif err != nil {", "C14")
mut("M38-setcanonical-decode-first", "scalar.go",
    "\tif !isReduced(x) {\n\t\treturn nil, errors.New(\"invalid scalar encoding\")\n\t}\n\n\tfiatScalarFromBytes((*[4]uint64)(&s.s), (*[32]byte)(x))\n\tfiatScalarToMontgomery(&s.s, (*fiatScalarNonMontgomeryDomainFieldElement)(&s.s))",
    "\tfiatScalarFromBytes((*[4]uint64)(&s.s), (*[32]byte)(x))\n\tif !isReduced(x) {\n\t\treturn nil, errors.New(\"invalid scalar encoding\")\n\t}\n\tfiatScalarToMontgomery(&s.s, (*fiatScalarNonMontgomeryDomainFieldElement)(&s.s))", "C14")
mut("M39-setwide-write-before-check", "field/fe_extra.go",
    "\tif len(x) != 64 {\n\t\treturn nil, errors.New(\"edwards25519: invalid SetWideBytes input size\")\n\t}",
    "\tv.Zero()\n\tif len(x) != 64 {\n\t\treturn nil, errors.New(\"edwards25519: invalid SetWideBytes input size\")\n\t}", "C14")
# --- C15
mut("M40a-negate-no-guard", "edwards25519.go", "func (v *Point) Negate(p *Point) *Point {\n\tcheckInitialized(p)\n", "func (v *Point) Negate(p *Point) *Point {\n", "C15")
mut("M40b-equal-guards-one", "edwards25519.go", "\tcheckInitialized(v, u)\n", "\tcheckInitialized(u)\n", "C15")
mut("M40c-montgomery-no-guard", "extra.go", "func (v *Point) bytesMontgomery(buf *[32]byte) []byte {\n\tcheckInitialized(v)\n", "func (v *Point) bytesMontgomery(buf *[32]byte) []byte {\n", "C15")
mut("M41a-vartimemulti-partial-guard", "extra.go",
    "\t\tpanic(\"edwards25519: called VarTimeMultiScalarMult with different size inputs\")\n\t}\n\tcheckInitialized(points...)",
    "\t\tpanic(\"edwards25519: called VarTimeMultiScalarMult with different size inputs\")\n\t}\n\tif len(points) > 0 {\n\t\tcheckInitialized(points[0])\n\t}", "C15")
mut("M41b-multi-length-one-way", "extra.go",
    "\tif len(scalars) != len(points) {\n\t\tpanic(\"edwards25519: called MultiScalarMult with different size inputs\")",
    "\tif len(scalars) < len(points) {\n\t\tpanic(\"edwards25519: called MultiScalarMult with different size inputs\")", "C15")
# --- C16
mut("M42-sqrtratio-no-absolute", "field/fe.go", "\tr.Absolute(rr) // Choose the nonnegative square root.", "\tr.Set(rr)", "C16 C04")
# --- C17
mut("M43-montgomery-no-z", "extra.go",
    "\ty.Multiply(&v.y, y.Invert(&v.z))        // y = Y / Z", "\ty.Set(&v.y)", "C17")
# --- C18
mut("M45-once-flag-before-build", "scalarmult.go",
    "\tbasepointNafTablePrecomp.initOnce.Do(func() {\n\t\tbasepointNafTablePrecomp.table.FromP3(NewGeneratorPoint())\n\t})",
    "\tif atomic.CompareAndSwapInt32(&basepointNafTablePrecomp.state, 0, 1) {\n\t\tbasepointNafTablePrecomp.table.FromP3(NewGeneratorPoint())\n\t}", "C18", "needs field+import")
# --- C19
mut("M46-generator-shared", "edwards25519.go", "func NewGeneratorPoint() *Point {\n\treturn new(Point).Set(generator)\n}", "func NewGeneratorPoint() *Point {\n\treturn generator\n}", "C19 C18")
mut("M48-extcoords-alias", "extra.go",
    "\tX = e[0].Set(&v.x)\n\tY = e[1].Set(&v.y)\n\tZ = e[2].Set(&v.z)\n\tT = e[3].Set(&v.t)\n\treturn", "\tX, Y, Z, T = &v.x, &v.y, &v.z, &v.t\n\treturn", "C19")
mut("M47-scalar-bytes-shared-buffer", "scalar.go",
    "\tvar encoded [32]byte\n\treturn s.bytes(&encoded)", "\treturn s.bytes(&scalarBytesBuf)", "C19 C18", "needs package var")

EXTRA = {
    "M12-fe-equal-bytes-equal": ("field/fe.go", "import (\n\t\"crypto/subtle\"", "import (\n\t\"bytes\"\n\t\"crypto/subtle\""),
    "M45-once-flag-before-build": ("scalarmult.go", None, None),
    "M47-scalar-bytes-shared-buffer": ("scalar.go", "// NewScalar returns a new zero Scalar.", "var scalarBytesBuf [32]byte\n\n// NewScalar returns a new zero Scalar."),
}

def main():
    os.makedirs(OUT, exist_ok=True)
    index = []
    for mid, path, old, new, props, note in M:
        tmp = tempfile.mkdtemp(prefix="mut-")
        try:
            shutil.copytree(REPO, os.path.join(tmp, "a"), ignore=shutil.ignore_patterns(".git"))
            shutil.copytree(os.path.join(tmp, "a"), os.path.join(tmp, "b"))
            f = os.path.join(tmp, "b", path)
            s = open(f).read()
            if s.count(old) != 1:
                print("SKIP", mid, ": anchor text found", s.count(old), "times")
                continue
            s = s.replace(old, new)
            if mid in EXTRA:
                ep, eo, en = EXTRA[mid]
                if mid == "M45-once-flag-before-build":
                    s = s.replace('import "sync"', 'import (\n\t"sync"\n\t"sync/atomic"\n)')
                    s = s.replace("var basepointNafTablePrecomp struct {\n\ttable    nafLookupTable8\n\tinitOnce sync.Once\n}", "var basepointNafTablePrecomp struct {\n\ttable    nafLookupTable8\n\tinitOnce sync.Once\n\tstate    int32\n}")
                else:
                    assert s.count(eo) == 1, mid
                    s = s.replace(eo, en)
            open(f, "w").write(s)
            d = subprocess.run(["diff", "-u", "--label", "a/" + path, "--label", "b/" + path, os.path.join(tmp, "a", path), f], capture_output=True, text=True).stdout
            open(os.path.join(OUT, mid + ".diff"), "w").write(d)
            index.append((mid, props, note))
        finally:
            shutil.rmtree(tmp)
    HAND_MADE = [("M02-revert-D1", "C01 C11 C12 C15", "the pinned tree's defect D1 (MultiScalarMult receiver), i.e. the fix reverted"),
                 ("M10-projlookup-direct-index", "C03", "secret-indexed table load"),
                 ("M44-once-to-bool", "C18", "sync.Once replaced by a plain bool"),
                 ("M49-setbytes-unsafe-overread", "C14", "Element.SetBytes loads a 64-bit word at x[31] through unsafe: reads 7 bytes past the input; only a guard page sees it")]
    index += [h for h in HAND_MADE if os.path.exists(os.path.join(OUT, h[0] + ".diff"))]
    with open(os.path.join(OUT, "INDEX.tsv"), "w") as fo:
        for mid, props, note in index:
            fo.write("%s\t%s\t%s\n" % (mid, props, note))
    print(len(index), "mutants written")

if __name__ == "__main__":
    main()
