#!/bin/bash
# usage: tools/confirm_seed.sh <Cxx> [demo-file] — confirms a sub-agent's seeded change in its scratch
# worktree /tmp/wt/<Cxx>: patch applies to a clean tree, suite passes with it, demo fails with it and passes without.
export GOFLAGS=-mod=mod GOPROXY=off GOSUMDB=off GOTOOLCHAIN=local
id="$1"; wt=/tmp/wt/$id; out=/tmp/wtout/$id
demo="${2:-$(ls $out/*_test.go | head -1)}"
cd "$wt" || exit 2
git checkout -q -- . ; git clean -fdq
git apply "$out/patch.diff" || { echo "PATCH-DOES-NOT-APPLY"; exit 1; }
git diff --stat | tail -1
pkgdir=.
grep -q "^package field" "$demo" && pkgdir=field
suite_ok=1
for i in 1 2; do go test -vet=off -count=1 ./... >/tmp/seed-suite.log 2>&1 || suite_ok=0; done
echo "suite with change: $([ $suite_ok = 1 ] && echo PASS || echo FAIL)"
cp "$demo" "$pkgdir/zz_demo_test.go"
extra="${DEMO_FLAGS:-}"
if go test -vet=off -count=1 $extra -run . ./$pkgdir >/tmp/seed-demo-with.log 2>&1; then echo "demo with change: PASS (unexpected)"; else echo "demo with change: FAIL (expected)"; grep -m3 -E "^\s+\S+_test.go|--- FAIL|DATA RACE" /tmp/seed-demo-with.log | cut -c1-200; fi
git diff -- . ':!*zz_demo_test.go' > /tmp/seed-p.diff; git checkout -q -- .
if go test -vet=off -count=1 $extra -run . ./$pkgdir >/tmp/seed-demo-without.log 2>&1; then echo "demo without change: PASS (expected)"; else echo "demo without change: FAIL (unexpected)"; tail -5 /tmp/seed-demo-without.log; fi
rm -f "$pkgdir/zz_demo_test.go"
git apply "$out/patch.diff"
