#!/bin/bash
# usage: tools/sweep.sh "<seeds>" [tier] [props...] — runs checks for several seeds, prints one line per run
seeds="$1"; tier="${2:-quick}"; shift 2
props="${*:-C01 C02 C03 C04 C05 C06 C07 C08 C09 C10 C11 C12 C13 C14 C15 C16 C17 C18 C19 C20}"
for s in $seeds; do for p in $props; do
  out="$(VERIF_SEED=$s ./vcheck $p --tier $tier 2>&1)"; code=$?
  echo "seed=$s $p exit=$code $(echo "$out" | grep -E "^$p tier" | cut -c1-160)"
  echo "$out" | grep -E "^(VIOLATION|INCONCLUSIVE|CANNOT)" | head -5 | cut -c1-300
done; done
