#!/bin/bash
# usage: tools/reseed.sh [pattern] — re-runs every recorded seed (seeded/S-*/) against the checks its
# meta.json says catch it, on a separate worktree; prints one line per (seed, check). A line with exit=0 is
# a regression of the machinery (a change that used to be caught is not any more).
cd /verif
pat="${1:-.}"
export WT=${WT:-/tmp/wt/sweeprepo2} VERIF_OUT=${VERIF_OUT:-/tmp/verif-alt-out2}
for d in seeded/S-*/; do
  id=$(basename $d); echo "$id" | grep -qE "$pat" || continue
  props=$(python3 -c "import json,sys; print(' '.join(json.load(open('$d/meta.json')).get('caught_by',[])))")
  [ -z "$props" ] && continue
  res=$(tools/seedcheck.sh $d/patch.diff $props 2>&1 | grep -E '^== |PATCH-DOES' | sed 's/^== //' | tr '\n' ';')
  echo "$id	$res"
done
