#!/bin/bash
# usage: tools/mutant.sh <patch.diff> <property>...   — applies the patch to /repo, confirms the
# repository's own tests still pass, runs the quick checks, and always restores /repo.
set -u
export GOFLAGS=-mod=mod GOPROXY=off GOSUMDB=off GOTOOLCHAIN=local
patch="$(readlink -f "$1")"; shift
if [ -n "$(git -C /repo status --porcelain)" ]; then echo "/repo is dirty, refusing"; exit 3; fi
trap 'git -C /repo checkout -- . ; git -C /repo clean -fdq' EXIT
git -C /repo apply "$patch" || { echo "PATCH-DOES-NOT-APPLY"; exit 3; }
if [ -z "${SKIP_TESTS:-}" ]; then
  if (cd /repo && go test -vet=off -count=1 ./... >/tmp/mutant-test.log 2>&1); then echo "repo tests: PASS"; else echo "repo tests: FAIL (mutant is not a valid seeded change)"; tail -5 /tmp/mutant-test.log; fi
fi
for p in "$@"; do
  out="$(cd /verif && ./vcheck "$p" ${TIER:+--tier $TIER} 2>&1)"; code=$?
  nv=$(echo "$out" | grep -c '^VIOLATION')
  echo "== $p exit=$code violations=$nv"
  echo "$out" | grep -A1 '^VIOLATION' | head -4 | cut -c1-600
  echo "$out" | grep -E '^(INCONCLUSIVE|CANNOT-DECIDE|KNOWN-FINDING)' | head -3 | cut -c1-200
done
